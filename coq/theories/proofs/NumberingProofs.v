(* NumberingProofs.v — lemmas about number_nodes / number_iface (op-codes and
   error values), used by Props_C07, Props_C08, Props_C15. *)
Require Import Base Syntax Front.
Require Import gen.CodeFacts.
Require Import ZifyBool.
Open Scope N_scope.

(* ---- flattened views of the numbered interface (root ancestor first) ---- *)

Fixpoint mi_root_first (i : miface) : list miface :=
  match i with
  | MI _ None _ => [i]
  | MI _ (Some b) _ => mi_root_first b ++ [i]
  end.

Definition mnode_errors (ns : list mnode) : list (string * Z) :=
  flat_map (fun n => match n with MErrorN e v => [(e, v)] | _ => [] end) ns.

Definition flat_funcs (i : miface) : list mfunc :=
  flat_map (fun x => mnode_funcs (mi_nodes x)) (mi_root_first i).
Definition flat_errors (i : miface) : list (string * Z) :=
  flat_map (fun x => mnode_errors (mi_nodes x)) (mi_root_first i).

Fixpoint zseq (start : Z) (len : nat) : list Z :=
  match len with
  | O => []
  | S k => start :: zseq (start + 1) k
  end.

Lemma nseq_app a n m : nseq a (n + m) = nseq a n ++ nseq (a + N.of_nat n) m.
Proof.
  revert a; induction n as [|n IH]; intro a; cbn [nseq Nat.add app].
  - replace (a + N.of_nat 0) with a by lia. reflexivity.
  - rewrite IH. replace (a + N.of_nat (S n)) with (a + 1 + N.of_nat n) by lia. reflexivity.
Qed.

Lemma zseq_app a n m : zseq a (n + m) = zseq a n ++ zseq (a + Z.of_nat n) m.
Proof.
  revert a; induction n as [|n IH]; intro a; cbn [zseq Nat.add app].
  - replace (a + Z.of_nat 0)%Z with a by lia. reflexivity.
  - rewrite IH. replace (a + Z.of_nat (S n))%Z with (a + 1 + Z.of_nat n)%Z by lia. reflexivity.
Qed.

Lemma nseq_length a n : List.length (nseq a n) = n.
Proof. revert a; induction n as [|n IH]; intro a; cbn; [reflexivity | now rewrite IH]. Qed.

Lemma nseq_In a n x : In x (nseq a n) <-> a <= x < a + N.of_nat n.
Proof.
  revert a; induction n as [|n IH]; intro a; cbn [nseq In].
  - split; [tauto | lia].
  - rewrite IH. split; [intros [->|H]; lia | intros H].
    destruct (N.eq_dec a x); [now left | right; lia].
Qed.

Lemma nseq_NoDup a n : NoDup (nseq a n).
Proof.
  revert a; induction n as [|n IH]; intro a; cbn [nseq]; constructor.
  - rewrite nseq_In. lia.
  - apply IH.
Qed.

Lemma zseq_In a n x : In x (zseq a n) <-> (a <= x < a + Z.of_nat n)%Z.
Proof.
  revert a; induction n as [|n IH]; intro a; cbn [zseq In].
  - split; [tauto | lia].
  - rewrite IH. split; [intros [->|H]; lia | intros H].
    destruct (Z.eq_dec a x); [now left | right; lia].
Qed.

Lemma zseq_NoDup a n : NoDup (zseq a n).
Proof.
  revert a; induction n as [|n IH]; intro a; cbn [zseq]; constructor.
  - rewrite zseq_In. lia.
  - apply IH.
Qed.

(* ---- declared (AST) views ---- *)

Definition decl_func_names (ns : list inode) : list string := map f_name
  (flat_map (fun n => match n with IFunc f => [f] | _ => [] end) ns).
Definition decl_error_names (ns : list inode) : list string :=
  flat_map (fun n => match n with IError e => [e] | _ => [] end) ns.

(* ---- the member loop ---- *)

Lemma number_nodes_spec sf st ns : forall ec oc ms ec' oc',
  number_nodes sf st ns ec oc = Ok (ms, ec', oc') ->
  map mf_id (mnode_funcs ms) = nseq oc (List.length (mnode_funcs ms)) /\
  map mf_name (mnode_funcs ms) = decl_func_names ns /\
  oc' = oc + N.of_nat (List.length (mnode_funcs ms)) /\
  map snd (mnode_errors ms) = zseq ec (List.length (mnode_errors ms)) /\
  map fst (mnode_errors ms) = decl_error_names ns /\
  ec' = (ec + Z.of_nat (List.length (mnode_errors ms)))%Z /\
  (forall f, In f (mnode_funcs ms) -> mf_id f <= max_op_code).
Proof.
  induction ns as [|n ns IH]; intros ec oc ms ec' oc' H.
  - cbn in H. inversion H; subst. cbn. repeat split; try lia.
  - destruct n as [c|f|e]; cbn [number_nodes] in H.
    + destruct (number_nodes sf st ns ec oc) as [[[ms0 ec0] oc0]| | |] eqn:E; cbn in H; try discriminate.
      inversion H; subst. specialize (IH _ _ _ _ _ E).
      unfold mnode_funcs, mnode_errors, decl_func_names, decl_error_names in *. cbn. exact IH.
    + destruct (resolve_params sf st (f_params f)) as [ps| | |] eqn:EP; cbn in H; try discriminate.
      destruct (max_op_code <? oc) eqn:EM; try discriminate.
      destruct (number_nodes sf st ns ec (oc + 1)) as [[[ms0 ec0] oc0]| | |] eqn:E; cbn in H; try discriminate.
      inversion H; subst. specialize (IH _ _ _ _ _ E).
      destruct IH as (I1 & I2 & I3 & I4 & I5 & I6 & I7).
      unfold mnode_funcs, mnode_errors, decl_func_names, decl_error_names in *.
      cbn [flat_map app map List.length mf_id mf_name nseq].
      repeat split.
      * now rewrite I1.
      * now rewrite I2.
      * lia.
      * exact I4.
      * exact I5.
      * exact I6.
      * intros g [<-|Hg]; [cbn; lia | now apply I7].
    + destruct (2147483647 <=? ec)%Z eqn:EE; try discriminate.
      destruct (number_nodes sf st ns (ec + 1) oc) as [[[ms0 ec0] oc0]| | |] eqn:E; cbn in H; try discriminate.
      inversion H; subst. specialize (IH _ _ _ _ _ E).
      destruct IH as (I1 & I2 & I3 & I4 & I5 & I6 & I7).
      unfold mnode_funcs, mnode_errors, decl_func_names, decl_error_names in *.
      cbn [flat_map app map List.length snd fst zseq].
      repeat split; try assumption.
      * now rewrite I4.
      * now rewrite I5.
      * lia.
Qed.

(* ---- declared chain, root first, computed the way the spec reads it ---- *)

Fixpoint decl_chain (fuel : nat) (st : symtab) (i : idef) : option (list idef) :=
  match fuel with
  | O => None
  | S f =>
      match i_base i with
      | None => Some [i]
      | Some b =>
          match iface_lookup st b with
          | None => None
          | Some bi => match decl_chain f st bi with
                       | Some l => Some (l ++ [i])
                       | None => None
                       end
          end
      end
  end.

Lemma flat_map_app {A B} (f : A -> list B) l1 l2 :
  flat_map f (l1 ++ l2) = flat_map f l1 ++ flat_map f l2.
Proof. induction l1; cbn; [reflexivity | now rewrite IHl1, app_assoc]. Qed.

Lemma number_iface_spec sf st : forall ifuel i ec oc mi ec' oc',
  number_iface ifuel sf st i ec oc = Ok (mi, ec', oc') ->
  exists chain, decl_chain ifuel st i = Some chain /\
  map mi_name (mi_root_first mi) = map i_name chain /\
  map mf_id (flat_funcs mi) = nseq oc (List.length (flat_funcs mi)) /\
  map mf_name (flat_funcs mi) = flat_map (fun x => decl_func_names (i_nodes x)) chain /\
  oc' = oc + N.of_nat (List.length (flat_funcs mi)) /\
  map snd (flat_errors mi) = zseq ec (List.length (flat_errors mi)) /\
  map fst (flat_errors mi) = flat_map (fun x => decl_error_names (i_nodes x)) chain /\
  ec' = (ec + Z.of_nat (List.length (flat_errors mi)))%Z /\
  (forall f, In f (flat_funcs mi) -> mf_id f <= max_op_code).
Proof.
  induction ifuel as [|fu IH]; intros i ec oc mi ec' oc' H; [discriminate|].
  cbn [number_iface] in H. cbn [decl_chain].
  destruct (i_base i) as [bn|] eqn:EB.
  - destruct (iface_lookup st bn) as [bi|] eqn:EL; cbn in H; try discriminate.
    destruct (number_iface fu sf st bi ec oc) as [[[mb ec1] oc1]| | |] eqn:EN; cbn in H; try discriminate.
    destruct (number_nodes sf st (i_nodes i) ec1 oc1) as [[[ms ec2] oc2]| | |] eqn:EM; cbn in H; try discriminate.
    inversion H; subst; clear H.
    destruct (IH _ _ _ _ _ _ EN) as (chain & C0 & C1 & C2 & C3 & C4 & C5 & C6 & C7 & C8).
    destruct (number_nodes_spec _ _ _ _ _ _ _ _ EM) as (M1 & M2 & M3 & M4 & M5 & M6 & M7).
    exists (chain ++ [i]). rewrite C0.
    unfold flat_funcs, flat_errors in *. cbn [mi_root_first].
    rewrite !flat_map_app, !map_app, !app_length. cbn [flat_map mi_nodes map].
    rewrite !app_nil_r.
    repeat split.
    + now rewrite C1.
    + rewrite nseq_app, C2, M1. do 2 f_equal. lia.
    + now rewrite C3, M2.
    + lia.
    + rewrite zseq_app, C5, M4. do 2 f_equal. lia.
    + now rewrite C6, M5.
    + lia.
    + intros f Hf. apply in_app_or in Hf. destruct Hf as [Hf|Hf]; [now apply C8 | now apply M7].
  - cbn in H.
    destruct (number_nodes sf st (i_nodes i) ec oc) as [[[ms ec2] oc2]| | |] eqn:EM; cbn in H; try discriminate.
    inversion H; subst; clear H.
    destruct (number_nodes_spec _ _ _ _ _ _ _ _ EM) as (M1 & M2 & M3 & M4 & M5 & M6 & M7).
    exists [i]. unfold flat_funcs, flat_errors. cbn [mi_root_first flat_map mi_nodes map mi_name].
    rewrite !app_nil_r. repeat split; assumption.
Qed.

(* ---- ancestors keep their numbering in every derived interface ---- *)

Lemma number_iface_base sf st ifuel i bn bi ec oc mi ec' oc' :
  number_iface (S ifuel) sf st i ec oc = Ok (mi, ec', oc') ->
  i_base i = Some bn -> iface_lookup st bn = Some bi ->
  exists mb ec1 oc1, number_iface ifuel sf st bi ec oc = Ok (mb, ec1, oc1) /\ mi_base mi = Some mb.
Proof.
  intros H EB EL. cbn [number_iface] in H. rewrite EB, EL in H. cbn in H.
  destruct (number_iface ifuel sf st bi ec oc) as [[[mb ec1] oc1]| | |] eqn:EN; cbn in H; try discriminate.
  destruct (number_nodes sf st (i_nodes i) ec1 oc1) as [[[ms ec2] oc2]| | |] eqn:EM; cbn in H; try discriminate.
  inversion H; subst. exists mb, ec1, oc1. split; reflexivity.
Qed.

(* more fuel never changes a successful numbering *)
Lemma number_iface_fuel_mono sf st : forall f1 f2 i ec oc r,
  (f1 <= f2)%nat -> number_iface f1 sf st i ec oc = Ok r -> number_iface f2 sf st i ec oc = Ok r.
Proof.
  induction f1 as [|f1 IH]; intros f2 i ec oc r Hle H; [discriminate|].
  destruct f2 as [|f2]; [lia|].
  cbn [number_iface] in *.
  destruct (i_base i) as [bn|]; [|exact H].
  destruct (iface_lookup st bn) as [bi|]; [|exact H].
  cbn in *.
  destruct (number_iface f1 sf st bi ec oc) as [x| | |] eqn:E; cbn in H; try discriminate.
  rewrite (IH f2 bi ec oc x ltac:(lia) E). exact H.
Qed.

(* ---- appending members / growing the symbol table ---- *)

Lemma number_nodes_app sf st ns extra : forall ec oc ms ec' oc',
  number_nodes sf st (ns ++ extra) ec oc = Ok (ms, ec', oc') ->
  exists ms1 ec1 oc1 ms2,
    number_nodes sf st ns ec oc = Ok (ms1, ec1, oc1) /\
    number_nodes sf st extra ec1 oc1 = Ok (ms2, ec', oc') /\ ms = ms1 ++ ms2.
Proof.
  induction ns as [|n ns IH]; intros ec oc ms ec' oc' H.
  - cbn in *. exists [], ec, oc, ms. repeat split; assumption.
  - destruct n as [c|f|e]; cbn [app number_nodes] in *.
    + destruct (number_nodes sf st (ns ++ extra) ec oc) as [[[ms0 ec0] oc0]| | |] eqn:E; cbn in H; try discriminate.
      inversion H; subst. destruct (IH _ _ _ _ _ E) as (ms1 & ec1 & oc1 & ms2 & A & B & C).
      rewrite A. cbn. exists (MConstN c :: ms1), ec1, oc1, ms2. subst. repeat split; assumption.
    + destruct (resolve_params sf st (f_params f)) as [ps| | |]; cbn in *; try discriminate.
      destruct (max_op_code <? oc); try discriminate.
      destruct (number_nodes sf st (ns ++ extra) ec (oc + 1)) as [[[ms0 ec0] oc0]| | |] eqn:E; cbn in H; try discriminate.
      inversion H; subst. destruct (IH _ _ _ _ _ E) as (ms1 & ec1 & oc1 & ms2 & A & B & C).
      rewrite A. cbn. eexists _, ec1, oc1, ms2. subst. repeat split; try eassumption.
    + destruct (2147483647 <=? ec)%Z; try discriminate.
      destruct (number_nodes sf st (ns ++ extra) (ec + 1) oc) as [[[ms0 ec0] oc0]| | |] eqn:E; cbn in H; try discriminate.
      inversion H; subst. destruct (IH _ _ _ _ _ E) as (ms1 & ec1 & oc1 & ms2 & A & B & C).
      rewrite A. cbn. eexists _, ec1, oc1, ms2. subst. repeat split; try eassumption.
Qed.
