(* CodecProofs.v — round trips of the little-endian images and of packed bundles, any width,
   any number of members, any values in range. *)
Require Import Base Codec.
Open Scope N_scope.

Lemma pow256_S n : 256 ^ N.of_nat (S n) = 256 * 256 ^ N.of_nat n.
Proof. rewrite Nat2N.inj_succ, N.pow_succ_r'. reflexivity. Qed.

Theorem get_put_le n : forall v rest, v < 256 ^ N.of_nat n -> get_le n (put_le n v ++ rest) = Some (v, rest).
Proof.
  induction n as [|n IH]; intros v rest Hv.
  - cbn [put_le get_le app]. change (256 ^ N.of_nat 0) with 1 in Hv. f_equal. f_equal. lia.
  - cbn [put_le get_le app]. rewrite pow256_S in Hv.
    rewrite IH.
    + f_equal. f_equal. pose proof (N.div_mod v 256 ltac:(lia)). lia.
    + apply N.div_lt_upper_bound; lia.
Qed.

Lemma put_le_length n v : List.length (put_le n v) = n.
Proof. revert v. induction n as [|n IH]; intro v; cbn [put_le List.length]; [reflexivity|]. now rewrite IH. Qed.

Lemma put_le_bytes n : forall v b, In b (put_le n v) -> b < 256.
Proof.
  induction n as [|n IH]; intros v b H; cbn [put_le] in H; [destruct H|].
  destruct H as [<-|H]; [apply N.mod_lt; lia | eapply IH; exact H].
Qed.

(* the decoder determines the bytes: two different byte strings never decode to the same value *)
Theorem put_get_le n : forall bs v rest,
  get_le n bs = Some (v, rest) -> (forall b, In b bs -> b < 256) ->
  bs = put_le n v ++ rest /\ v < 256 ^ N.of_nat n.
Proof.
  induction n as [|n IH]; intros bs v rest H HB.
  - cbn [get_le] in H. injection H as <- <-. split; [reflexivity|]. change (256 ^ N.of_nat 0) with 1. lia.
  - cbn [get_le] in H. destruct bs as [|b r]; [discriminate|].
    destruct (get_le n r) as [[v' rest']|] eqn:E; [|discriminate].
    injection H as <- <-.
    destruct (IH r v' rest' E ltac:(intros x Hx; apply HB; now right)) as [-> Hv].
    assert (Hb : b < 256) by (apply HB; now left).
    cbn [put_le app]. rewrite pow256_S.
    assert (M : (b + 256 * v') mod 256 = b).
    { rewrite (N.mul_comm 256 v'), N.mod_add by lia. apply N.mod_small. exact Hb. }
    assert (D : (b + 256 * v') / 256 = v').
    { rewrite (N.mul_comm 256 v'), N.div_add by lia. rewrite (N.div_small b 256 Hb). lia. }
    rewrite M, D. split; [reflexivity | lia].
Qed.

Definition member_ok (m : nat * N) : Prop := snd m < 256 ^ N.of_nat (fst m).

Theorem decode_encode_bundle ms : forall rest,
  Forall member_ok ms ->
  decode_bundle (map fst ms) (encode_bundle ms ++ rest) = Some (map snd ms, rest).
Proof.
  induction ms as [|[w v] ms IH]; intros rest H; [reflexivity|].
  inversion H as [|? ? Hm Hr]; subst.
  cbn [map fst snd decode_bundle]. unfold encode_bundle. cbn [flat_map fst snd]. fold (encode_bundle ms).
  rewrite <- app_assoc. rewrite get_put_le by exact Hm. rewrite IH by exact Hr. reflexivity.
Qed.

Lemma encode_bundle_length ms : List.length (encode_bundle ms) = fold_right Nat.add O (map fst ms).
Proof.
  induction ms as [|[w v] ms IH]; [reflexivity|].
  unfold encode_bundle. cbn [flat_map map fst snd fold_right]. fold (encode_bundle ms).
  rewrite app_length, put_le_length, IH. reflexivity.
Qed.

(* signed carriers: the bit pattern, hence the value, survives *)
Theorem carrier_round_trip bits v : 0 < bits -> v < 2 ^ bits -> of_carrier bits (to_carrier bits v) = v.
Proof.
  intros Hb Hv. unfold of_carrier, to_carrier.
  assert (P : 0 < 2 ^ bits) by (apply N.neq_0_lt_0; apply N.pow_nonzero; lia).
  destruct (v <? 2 ^ (bits - 1)) eqn:E.
  - rewrite Z.mod_small by lia. apply N2Z.id.
  - replace (Z.of_N v - Z.of_N (2 ^ bits))%Z with (Z.of_N v + (-1) * Z.of_N (2 ^ bits))%Z by lia.
    rewrite Z.mod_add by lia. rewrite Z.mod_small by lia. apply N2Z.id.
Qed.

Lemma carrier_range bits v : 0 < bits -> v < 2 ^ bits ->
  (- Z.of_N (2 ^ (bits - 1)) <= to_carrier bits v < Z.of_N (2 ^ (bits - 1)))%Z.
Proof.
  intros Hb Hv. unfold to_carrier.
  assert (S : 2 ^ bits = 2 * 2 ^ (bits - 1)).
  { replace bits with (N.succ (bits - 1)) at 1 by lia. apply N.pow_succ_r'. }
  destruct (v <? 2 ^ (bits - 1)) eqn:E.
  - apply N.ltb_lt in E. lia.
  - apply N.ltb_ge in E. lia.
Qed.
