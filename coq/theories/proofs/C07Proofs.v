(* C07Proofs.v — the front end's numbering satisfies Spec_Numbering (C07, C08). *)
Require Import gen.CounterFacts.
Require Import Base Syntax Front.
Require Import gen.CodeFacts.
Require Import spec.Spec_Numbering proofs.NumberingProofs proofs.GatherProofs.
Open Scope N_scope.

Definition optable_of_mir (mir : list mtop) : optable :=
  flat_map (fun t => match t with
                     | MTIface mi => [(mi_name mi, map (fun f => (mf_name f, mf_id f)) (flat_funcs mi))]
                     | _ => []
                     end) mir.

Definition errtable_of_mir (mir : list mtop) : errtable :=
  flat_map (fun t => match t with
                     | MTIface mi => [(mi_name mi, flat_errors mi)]
                     | _ => []
                     end) mir.

Lemma decl_chain_is_chain_of st : forall fuel i,
  decl_chain fuel st i = chain_of (iface_lookup st) fuel i.
Proof.
  induction fuel as [|f IH]; intro i; cbn; [reflexivity|].
  destruct (i_base i); [|reflexivity]. destruct (iface_lookup st s); [|reflexivity].
  now rewrite IH.
Qed.

Lemma chain_of_ext lk1 lk2 : (forall k, lk1 k = lk2 k) ->
  forall fuel i, chain_of lk1 fuel i = chain_of lk2 fuel i.
Proof.
  intros E; induction fuel as [|f IH]; intro i; cbn; [reflexivity|].
  destruct (i_base i); [|reflexivity]. rewrite E. destruct (lk2 s); [|reflexivity].
  now rewrite IH.
Qed.

Lemma list_eqb_refl {A} (eqb : A -> A -> bool) (R : forall x, eqb x x = true) l :
  list_eqb eqb l l = true.
Proof. induction l; cbn; [reflexivity | now rewrite R, IHl]. Qed.

Lemma number_iface_name sf st ifuel i ec oc mi ec' oc' :
  number_iface ifuel sf st i ec oc = Ok (mi, ec', oc') -> mi_name mi = i_name i.
Proof.
  destruct ifuel as [|f]; [discriminate|]. cbn [number_iface]. intro H.
  destruct (match i_base i with
            | Some bn => _ | None => _ end) as [[[mb e1] o1]| | |]; cbn in H; try discriminate.
  destruct (number_nodes sf st (i_nodes i) e1 o1) as [[[ms e2] o2]| | |]; cbn in H; try discriminate.
  inversion H; reflexivity.
Qed.

Lemma nat_seq_N_is_nseq a n : nat_seq_N a n = nseq a n.
Proof. revert a; induction n; intro a; cbn; [reflexivity | now rewrite IHn]. Qed.
Lemma nat_seq_Z_is_zseq a n : nat_seq_Z a n = zseq a n.
Proof. revert a; induction n; intro a; cbn; [reflexivity | now rewrite IHn]. Qed.

Lemma max_op_code_is_limit : max_op_code = op_limit.
Proof. reflexivity. Qed.
Lemma error_start_is_first : error_code_start_z = first_error.
Proof. reflexivity. Qed.

Lemma map_fst_pairs (l : list mfunc) :
  map fst (map (fun f => (mf_name f, mf_id f)) l) = map mf_name l.
Proof. induction l; cbn; [reflexivity | now rewrite IHl]. Qed.
Lemma map_snd_pairs (l : list mfunc) :
  map snd (map (fun f => (mf_name f, mf_id f)) l) = map mf_id l.
Proof. induction l; cbn; [reflexivity | now rewrite IHl]. Qed.

Section WithFiles.
  Variable files : list ast.
  Variable st : symtab.
  Hypothesis Hst : gather_files st_empty files = Ok st.

  Lemma number_top_chain i mi :
    number_top st i = Ok mi ->
    exists chain, spec_chain files i = Some chain /\
      mi_name mi = i_name i /\
      map mf_name (flat_funcs mi) = flat_map method_names chain /\
      map mf_id (flat_funcs mi) = nseq 0 (List.length (flat_funcs mi)) /\
      (forall f, In f (flat_funcs mi) -> mf_id f <= op_limit) /\
      map fst (flat_errors mi) = flat_map error_names chain /\
      map snd (flat_errors mi) = zseq first_error (List.length (flat_errors mi)).
  Proof.
    unfold number_top. intro H.
    destruct (number_iface (iface_fuel st) (struct_fuel st) st i error_code_start_z 0)
      as [[[m e] o]| | |] eqn:E; cbn in H; try discriminate.
    inversion H; subst m; clear H.
    destruct (number_iface_spec _ _ _ _ _ _ _ _ _ E)
      as (chain & C0 & C1 & C2 & C3 & C4 & C5 & C6 & C7 & C8).
    exists chain. repeat split.
    - unfold spec_chain. rewrite <- (iface_fuel_is_count _ _ Hst).
      rewrite <- C0, decl_chain_is_chain_of. symmetry.
      apply chain_of_ext. apply (iface_lookup_is_find _ _ Hst).
    - exact (number_iface_name _ _ _ _ _ _ _ _ _ E).
    - exact C3.
    - exact C2.
    - intros f Hf. rewrite <- max_op_code_is_limit. now apply C8.
    - exact C6.
    - rewrite <- error_start_is_first. exact C5.
  Qed.

  Lemma row_ok i mi :
    number_top st i = Ok mi ->
    spec_ops_iface files i (mi_name mi, map (fun f => (mf_name f, mf_id f)) (flat_funcs mi)) = true.
  Proof.
    intro H. destruct (number_top_chain _ _ H) as (chain & S0 & S1 & S2 & S3 & S4 & _ & _).
    unfold spec_ops_iface. rewrite S0. cbn [fst snd].
    rewrite map_fst_pairs, map_snd_pairs.
    rewrite S1, String.eqb_refl. cbn [andb].
    rewrite S2, (list_eqb_refl _ String.eqb_refl). cbn [andb].
    rewrite <- S2, map_length, nat_seq_N_is_nseq, S3.
    rewrite (list_eqb_refl _ N.eqb_refl). cbn [andb].
    rewrite <- S3. apply forallb_forall. intros x Hx.
    apply in_map_iff in Hx. destruct Hx as (f & <- & Hf).
    apply N.leb_le. now apply S4.
  Qed.

  Lemma erow_ok i mi :
    number_top st i = Ok mi ->
    spec_errs_iface files i (mi_name mi, flat_errors mi) = true.
  Proof.
    intro H. destruct (number_top_chain _ _ H) as (chain & S0 & S1 & _ & _ & _ & S5 & S6).
    unfold spec_errs_iface. rewrite S0. cbn [fst snd].
    rewrite S1, String.eqb_refl. cbn [andb].
    rewrite S5, (list_eqb_refl _ String.eqb_refl). cbn [andb].
    rewrite <- S5, map_length, nat_seq_Z_is_zseq, S6.
    apply (list_eqb_refl _ Z.eqb_refl).
  Qed.

  Lemma to_mir_rows ns : forall mir,
    to_mir st ns = Ok mir ->
    forallb2 (spec_ops_iface files) (node_ifaces ns) (optable_of_mir mir) = true /\
    forallb2 (spec_errs_iface files) (node_ifaces ns) (errtable_of_mir mir) = true.
  Proof.
    induction ns as [|n ns IH]; intros mir H; cbn in H.
    - inversion H; subst. split; reflexivity.
    - destruct n as [p|c|s|i]; cbn in H.
      + destruct (to_mir st ns) as [r| | |] eqn:E; cbn in H; try discriminate.
        inversion H; subst. exact (IH _ eq_refl).
      + destruct (to_mir st ns) as [r| | |] eqn:E; cbn in H; try discriminate.
        inversion H; subst. exact (IH _ eq_refl).
      + destruct (resolve_top_struct st s) as [t| | |]; cbn in H; try discriminate.
        destruct (to_mir st ns) as [r| | |] eqn:E; cbn in H; try discriminate.
        inversion H; subst. exact (IH _ eq_refl).
      + destruct (number_top st i) as [mi| | |] eqn:EN; cbn in H; try discriminate.
        destruct (to_mir st ns) as [r| | |] eqn:E; cbn in H; try discriminate.
        inversion H; subst. destruct (IH _ eq_refl) as [I1 I2].
        unfold optable_of_mir, errtable_of_mir. cbn [node_ifaces flat_map app forallb2].
        fold (optable_of_mir r). fold (errtable_of_mir r). fold (node_ifaces ns).
        rewrite (row_ok _ _ EN), (erow_ok _ _ EN). cbn [andb]. split; assumption.
  Qed.
End WithFiles.

Lemma front_inv e md files mir :
  front e md files = Ok mir ->
  exists main rest st, files = main :: rest /\
    gather_files st_empty files = Ok st /\ to_mir st (a_nodes main) = Ok mir.
Proof.
  unfold front, front_gen. destruct files as [|main rest]; [discriminate|]. intro H.
  destruct (gather_files st_empty (main :: rest)) as [st| | |] eqn:EG; cbn in H; try discriminate.
  destruct (functions_pass main) as [[]| | |]; cbn in H; try discriminate.
  destruct (cycles_pass st main) as [order| | |]; cbn in H; try discriminate.
  destruct (verify_structs md st [] order) as [store| | |]; cbn in H; try discriminate.
  destruct (to_mir st (a_nodes main)) as [m| | |] eqn:EM; cbn in H; try discriminate.
  exists main, rest, st. repeat split; try reflexivity.
  assert (V : forall o : outcome unit, (do _ <- o; Ok m) = Ok mir -> m = mir).
  { intros [[]| | |] HV; cbn in HV; try discriminate. now inversion HV. }
  destruct e; cbn in H.
  - apply V in H. subst. exact EM.
  - destruct CounterFacts.lib_runs_interface_verifier; apply V in H; subst; exact EM.
Qed.

Theorem front_ops_spec e md files mir :
  front e md files = Ok mir -> spec_c07 files (optable_of_mir mir) = true.
Proof.
  intro H. destruct (front_inv _ _ _ _ H) as (main & rest & st & -> & G & T).
  unfold spec_c07. rewrite ast_ifaces_node_ifaces.
  exact (proj1 (to_mir_rows _ _ G _ _ T)).
Qed.

Theorem front_errs_spec e md files mir :
  front e md files = Ok mir -> spec_c08 files (errtable_of_mir mir) = true.
Proof.
  intro H. destruct (front_inv _ _ _ _ H) as (main & rest & st & -> & G & T).
  unfold spec_c08. rewrite ast_ifaces_node_ifaces.
  exact (proj2 (to_mir_rows _ _ G _ _ T)).
Qed.

(* ---- consequences stated on the spec itself ---- *)

Lemma list_eqb_eq {A} (eqb : A -> A -> bool) (R : forall x y, eqb x y = true -> x = y) :
  forall l1 l2, list_eqb eqb l1 l2 = true -> l1 = l2.
Proof.
  induction l1 as [|a l1 IH]; destruct l2 as [|b l2]; cbn; intro H; try discriminate; [reflexivity|].
  apply andb_prop in H. destruct H as [H1 H2]. f_equal; [now apply R | now apply IH].
Qed.

Lemma spec_row_unique_bounded files i row :
  spec_ops_iface files i row = true ->
  NoDup (map snd (snd row)) /\ (forall x, In x (map snd (snd row)) -> x <= 16383).
Proof.
  unfold spec_ops_iface. destruct (spec_chain files i) as [chain|]; [|discriminate].
  intro H. repeat (apply andb_prop in H; destruct H as [H ?]).
  split.
  - apply (list_eqb_eq _ (fun x y => proj1 (N.eqb_eq x y))) in H1. rewrite H1, nat_seq_N_is_nseq.
    apply nseq_NoDup.
  - intros x Hx. rewrite forallb_forall in H0. apply N.leb_le. now apply H0.
Qed.

Lemma forallb2_In {A B} (f : A -> B -> bool) : forall l1 l2 a,
  forallb2 f l1 l2 = true -> In a l1 -> exists b, In b l2 /\ f a b = true.
Proof.
  induction l1 as [|x l1 IH]; intros l2 a H Ha; [destruct Ha|].
  destruct l2 as [|y l2]; [discriminate|]. cbn in H. apply andb_prop in H. destruct H as [H1 H2].
  destruct Ha as [<-|Ha].
  - exists y. split; [now left | exact H1].
  - destruct (IH _ _ H2 Ha) as (b & Hb & Hf). exists b. split; [now right | exact Hf].
Qed.

Theorem too_many_methods_rejected e md files main rest i :
  files = main :: rest -> In i (ast_ifaces main) -> too_many_methods files i = true ->
  is_ok (front e md files) = false.
Proof.
  intros -> Hi HT. destruct (front e md (main :: rest)) as [mir| | |] eqn:E; try reflexivity.
  exfalso. pose proof (front_ops_spec _ _ _ _ E) as S. unfold spec_c07 in S.
  destruct (forallb2_In _ _ _ _ S Hi) as (row & _ & R).
  unfold too_many_methods in HT. unfold spec_ops_iface in R.
  destruct (spec_chain (main :: rest) i) as [chain|]; [|discriminate].
  repeat (apply andb_prop in R; destruct R as [R ?]).
  apply (list_eqb_eq _ (fun x y => proj1 (N.eqb_eq x y))) in H0.
  rewrite H0, nat_seq_N_is_nseq in H. rewrite forallb_forall in H.
  apply N.ltb_lt in HT.
  set (n := List.length (flat_map method_names chain)) in *.
  assert (Hin : In (N.of_nat n - 1) (nseq 0 n)) by (apply nseq_In; unfold op_limit in HT; lia).
  specialize (H _ Hin). apply N.leb_le in H. unfold op_limit in *. lia.
Qed.

Theorem ancestor_numbering_shared st i mi bn bi :
  number_top st i = Ok mi -> i_base i = Some bn -> iface_lookup st bn = Some bi ->
  exists mb, number_top st bi = Ok mb /\ mi_base mi = Some mb.
Proof.
  unfold number_top. intros H EB EL.
  destruct (number_iface (iface_fuel st) (struct_fuel st) st i error_code_start_z 0)
    as [[[m e] o]| | |] eqn:E; cbn in H; try discriminate.
  inversion H; subst m; clear H.
  unfold iface_fuel in *.
  destruct (number_iface_base _ _ _ _ _ _ _ _ _ _ _ E EB EL) as (mb & e1 & o1 & EN & EBm).
  exists mb. split; [|exact EBm].
  assert (Hle : (List.length (st_ifaces st) <= S (List.length (st_ifaces st)))%nat) by lia.
  rewrite (number_iface_fuel_mono _ _ _ _ _ _ _ _ Hle EN).
  reflexivity.
Qed.
