(* PstProofs.v — on every pair tree of the shapes the grammar produces when no comment sits
   between the tokens of a declaration and every array size is in 1..65535, the PST -> AST
   conversion behaves identically in debug and release builds and never reaches an
   `unwrap_unchecked` on None/Err. *)
Require Import Base Syntax Consts Pst.
Require Import gen.PstFacts.
Require Export PstWf.
Open Scope string_scope.
Open Scope list_scope.

(* ---- Debug = Release on well-formed trees ---- *)

Lemma one_rule a b t : is_rule a t = true -> is_rule b t = true -> a = b.
Proof. unfold is_rule. intros H1 H2. apply String.eqb_eq in H1, H2. congruence. Qed.

Lemma param_type_modes t : wf_param_type t = true -> param_type_of Debug t = param_type_of Release t.
Proof.
  unfold wf_param_type, param_type_of. intro H. apply andb_prop in H. destruct H as [HR H]. rewrite HR.
  destruct (t_kids t) as [|k1 [|k2 [|k3 r]]]; try discriminate; cbn [hd_error ast_unwrap obind tl].
  - reflexivity.
  - unfold wf_array in H.
    destruct (type_of k1) as [| | |n]; try (destruct (is_rule "unbounded_array" k2); [reflexivity|];
      destruct (is_rule "bounded_array" k2); [|reflexivity]; cbn [orb andb] in H;
      destruct (parse_count (inner_str k2)); [reflexivity | discriminate]).
Qed.

Lemma param_modes t : wf_param t = true -> param_of Debug t = param_of Release t.
Proof.
  unfold wf_param, param_of. destruct (t_kids t) as [|m [|ty [|id [|x r]]]]; try discriminate.
  intro H. apply andb_prop in H. destruct H as [_ H]. cbn [nth_error ast_unwrap obind].
  now rewrite (param_type_modes _ H).
Qed.

Lemma params_modes ts : forallb (fun p => negb (is_rule "param" p) || wf_param p) ts = true ->
  params_of Debug ts = params_of Release ts.
Proof.
  induction ts as [|t ts IH]; intro H; cbn [params_of]; [reflexivity|].
  cbn [forallb] in H. apply andb_prop in H. destruct H as [H1 H2].
  destruct (is_rule "param" t); cbn [negb orb] in H1.
  - now rewrite (param_modes _ H1), (IH H2).
  - exact (IH H2).
Qed.

Lemma attrs_modes ts : forall seen, forallb wf_attr ts = true -> attrs_of Debug ts seen = attrs_of Release ts seen.
Proof.
  induction ts as [|a ts IH]; intros seen H; cbn [attrs_of]; [reflexivity|].
  cbn [forallb] in H. apply andb_prop in H. destruct H as [H1 H2]. unfold wf_attr in H1.
  destruct (is_rule "attribute" a); cbn [negb orb] in *; [|reflexivity].
  destruct (t_kids a) as [|k [|k2 r]]; try discriminate. cbn [hd_error ast_unwrap obind].
  destruct (String.eqb (t_text k) "optional"); [|reflexivity].
  destruct seen; [reflexivity | now apply IH].
Qed.

Lemma const_modes ub t : wf_const t = true -> const_of Debug ub t = const_of Release ub t.
Proof.
  unfold wf_const, const_of. destruct (t_kids t) as [|a [|b [|c [|d [|e r]]]]]; try discriminate. reflexivity.
Qed.

Lemma member_modes ub doc t : wf_member t = true -> member_of Debug ub doc t = member_of Release ub doc t.
Proof.
  unfold wf_member, member_of. intro H.
  destruct (is_rule "error" t) eqn:EE; [reflexivity|].
  destruct (is_rule "const" t) eqn:EC.
  - destruct (is_rule "COMMENT" t) eqn:EK; [|now rewrite (const_modes ub _ H)].
    (* a pair has one rule: COMMENT and const cannot both hold *)
    pose proof (one_rule _ _ _ EK EC) as X. discriminate.
  - destruct (is_rule "function" t) eqn:EF; [|reflexivity].
    destruct (is_rule "COMMENT" t) eqn:EK.
    + pose proof (one_rule _ _ _ EK EF) as X. discriminate.
    + unfold wf_function in H. destruct (t_kids t) as [|kw [|id ps]]; try discriminate.
      apply andb_prop in H. destruct H as [H1 H2]. cbn [nth_error ast_unwrap obind tl].
      now rewrite (attrs_modes _ false H1), (params_modes _ H2).
Qed.

Lemma members_modes ub ts : forall pending, forallb wf_member ts = true ->
  members_of Debug ub ts pending = members_of Release ub ts pending.
Proof.
  unfold members_of.
  induction ts as [|t ts IH]; intros pending H; cbn [members_of_gen]; [reflexivity|].
  cbn [forallb] in H. apply andb_prop in H. destruct H as [H1 H2].
  destruct (is_rule "COMMENT" t); [now apply IH|].
  destruct (is_rule "const" t || is_rule "function" t || is_rule "error" t); [|reflexivity].
  now rewrite (member_modes ub pending _ H1), (IH None H2).
Qed.

Lemma iface_modes ub t : wf_iface t = true -> iface_of Debug ub t = iface_of Release ub t.
Proof.
  unfold wf_iface, iface_of. destruct (t_kids t) as [|kw [|iname ms]]; try discriminate.
  intro H. apply andb_prop in H. destruct H as [H1 H2]. cbn [tl hd_error ast_unwrap obind].
  destruct (t_kids iname) as [|a [|b [|c r]]]; try discriminate; cbn [nth_error ast_unwrap obind];
    now rewrite (members_modes ub _ None H2).
Qed.

Lemma field_modes t : wf_field t = true -> field_of Debug t = field_of Release t.
Proof.
  unfold wf_field, field_of. destruct (t_kids t) as [|a [|b [|c [|d r]]]]; try discriminate; intro H;
    cbn [nth_error ast_unwrap obind].
  - destruct (is_rule "bounded_array" b) eqn:EB; [|reflexivity].
    pose proof (one_rule _ _ _ EB H) as X. discriminate.
  - apply andb_prop in H. destruct H as [H1 H2]. rewrite H1.
    destruct (parse_count (inner_str b)); [reflexivity | discriminate].
Qed.

Lemma fields_modes ts :
  forallb (fun f => is_rule "COMMENT" f || (is_rule "struct_field" f && wf_field f)) ts = true ->
  fields_of Debug ts = fields_of Release ts.
Proof.
  induction ts as [|t ts IH]; intro H; cbn [fields_of]; [reflexivity|].
  cbn [forallb] in H. apply andb_prop in H. destruct H as [H1 H2].
  destruct (is_rule "struct_field" t) eqn:ES.
  - destruct (is_rule "COMMENT" t) eqn:EK.
    + pose proof (one_rule _ _ _ EK ES) as X. discriminate.
    + cbn [orb andb] in H1. now rewrite (field_modes _ H1), (IH H2).
  - destruct (is_rule "COMMENT" t); [exact (IH H2) | reflexivity].
Qed.

Lemma struct_modes t : wf_struct t = true -> struct_of Debug t = struct_of Release t.
Proof.
  unfold wf_struct, struct_of. destruct (t_kids t) as [|kw [|id fs]]; try discriminate.
  intro H. cbn [tl hd_error ast_unwrap obind]. now rewrite (fields_modes _ H).
Qed.

Lemma nodes_modes ub ts : forallb wf_top ts = true -> nodes_of Debug ub ts = nodes_of Release ub ts.
Proof.
  induction ts as [|t ts IH]; intro H; cbn [nodes_of]; [reflexivity|].
  cbn [forallb] in H. apply andb_prop in H. destruct H as [H1 H2]. unfold wf_top in H1.
  destruct (is_rule "include" t).
  - destruct (t_kids t) as [|p [|q r]]; try discriminate. cbn [hd_error ast_unwrap obind]. now rewrite (IH H2).
  - destruct (is_rule "struct" t); [now rewrite (struct_modes _ H1), (IH H2)|].
    destruct (is_rule "const" t); [now rewrite (const_modes ub _ H1), (IH H2)|].
    destruct (is_rule "interface" t); [now rewrite (iface_modes ub _ H1), (IH H2)|].
    exact (IH H2).
Qed.

Theorem pst_modes_agree_raw ub t : wf_idl t = true -> pst_to_ast_raw Debug ub t = pst_to_ast_raw Release ub t.
Proof. unfold wf_idl, pst_to_ast_raw. apply nodes_modes. Qed.

(* ... of the tree the conversion effectively reads (with the repaired positional reads: the
   tree without the comments inside declarations) *)
Theorem pst_modes_agree ub t : wf_idl (canon t) = true -> pst_to_ast Debug ub t = pst_to_ast Release ub t.
Proof. unfold pst_to_ast. apply pst_modes_agree_raw. Qed.

(* ---- the debug build never reports UB (it panics instead) ---- *)
Definition not_ub {A} (o : outcome A) : Prop := forall s, o <> UB s.

Lemma not_ub_bind {A B} (o : outcome A) (f : A -> outcome B) :
  not_ub o -> (forall a, not_ub (f a)) -> not_ub (obind o f).
Proof.
  intros H1 H2 s. destruct o; cbn; try discriminate; [apply H2|].
  intro E. inversion E; subst. exact (H1 s eq_refl).
Qed.
Lemma not_ub_unwrap {A} site (o : option A) : not_ub (ast_unwrap Debug site o).
Proof. intro s. destruct o; discriminate. Qed.
Lemma not_ub_must {A} c (o : option A) : not_ub (must c o).
Proof. intro s. destruct o; discriminate. Qed.
Lemma not_ub_ok {A} (a : A) : not_ub (Ok a).
Proof. intro s. discriminate. Qed.
Lemma not_ub_reject {A} c : not_ub (@Reject A c).
Proof. intro s. discriminate. Qed.

Lemma not_ub_count c site o : not_ub (count_unwrap c Debug site o).
Proof. unfold count_unwrap. destruct c; [apply not_ub_must | apply not_ub_unwrap]. Qed.
Lemma count_unwrap_some c md site v : count_unwrap c md site (Some v) = Ok v.
Proof. unfold count_unwrap. destruct c; reflexivity. Qed.

Create HintDb nubdb.
#[export] Hint Resolve not_ub_ok not_ub_reject not_ub_unwrap not_ub_must not_ub_count : nubdb.

Ltac nub :=
  repeat first
    [ solve [auto with nubdb]
    | apply not_ub_bind; [| intro ]
    | match goal with |- not_ub (if ?c then _ else _) => destruct c end
    | match goal with |- not_ub (match ?x with _ => _ end) => destruct x end ].

Lemma param_type_debug t : not_ub (param_type_of Debug t).
Proof. unfold param_type_of. nub. Qed.
#[export] Hint Resolve param_type_debug : nubdb.
Lemma param_debug t : not_ub (param_of Debug t).
Proof. unfold param_of. nub. Qed.
#[export] Hint Resolve param_debug : nubdb.
Lemma params_debug ts : not_ub (params_of Debug ts).
Proof. induction ts as [|t ts IH]; cbn [params_of]; nub. Qed.
#[export] Hint Resolve params_debug : nubdb.
Lemma attrs_debug ts : forall seen, not_ub (attrs_of Debug ts seen).
Proof. induction ts as [|a ts IH]; intro seen; cbn [attrs_of]; nub. Qed.
#[export] Hint Resolve attrs_debug : nubdb.
Lemma const_debug ub t : not_ub (const_of Debug ub t).
Proof. unfold const_of. nub. Qed.
#[export] Hint Resolve const_debug : nubdb.
Lemma member_debug ub doc t : not_ub (member_of Debug ub doc t).
Proof. unfold member_of. nub. Qed.
#[export] Hint Resolve member_debug : nubdb.
Lemma members_debug ub ts : forall p, not_ub (members_of Debug ub ts p).
Proof. unfold members_of. induction ts as [|t ts IH]; intro p; cbn [members_of_gen]; nub. Qed.
#[export] Hint Resolve members_debug : nubdb.
Lemma iface_debug ub t : not_ub (iface_of Debug ub t).
Proof. unfold iface_of. nub. Qed.
#[export] Hint Resolve iface_debug : nubdb.
Lemma field_debug t : not_ub (field_of Debug t).
Proof. unfold field_of. nub. Qed.
#[export] Hint Resolve field_debug : nubdb.
Lemma fields_debug ts : not_ub (fields_of Debug ts).
Proof. induction ts as [|t ts IH]; cbn [fields_of]; nub. Qed.
#[export] Hint Resolve fields_debug : nubdb.
Lemma struct_debug t : not_ub (struct_of Debug t).
Proof. unfold struct_of. nub. Qed.
#[export] Hint Resolve struct_debug : nubdb.
Lemma nodes_debug ub ts : not_ub (nodes_of Debug ub ts).
Proof. induction ts as [|t ts IH]; cbn [nodes_of]; nub. Qed.

Theorem pst_release_no_ub ub t : wf_idl (canon t) = true -> not_ub (pst_to_ast Release ub t).
Proof. intro H. rewrite <- (pst_modes_agree ub t H). unfold pst_to_ast, pst_to_ast_raw. apply nodes_debug. Qed.

(* with the repaired positional reads comments inside declarations are invisible: two trees
   that differ only there convert to the same result, in either mode *)
Theorem comments_inside_declarations_invisible md ub t1 t2 :
  pst_skips_comments = true -> strip_idl t1 = strip_idl t2 -> pst_to_ast md ub t1 = pst_to_ast md ub t2.
Proof. intros H E. unfold pst_to_ast, canon. rewrite H, E. reflexivity. Qed.
