(* ConstsProofs.v — the range check of Primitive::new is exact: for every literal the grammar
   admits, of any length, an integer constant is accepted iff its mathematical value lies in
   the range of its type and (unsigned types) it carries no sign. *)
Require Import Base Syntax Consts.
Open Scope string_scope.

Fixpoint all_digitsb (radix : N) (s : string) : bool :=
  match s with
  | EmptyString => true
  | String c r => match digit_val c with
                  | Some d => (d <? radix)%N && all_digitsb radix r
                  | None => false
                  end
  end.

Lemma digit_val_x : digit_val "x" = None.
Proof. reflexivity. Qed.
Lemma digit_val_dot : digit_val "." = None.
Proof. reflexivity. Qed.
Lemma digit_val_minus : digit_val "-" = None.
Proof. reflexivity. Qed.
Lemma digit_val_plus : digit_val "+" = None.
Proof. reflexivity. Qed.

Lemma remove_0x_cons c s :
  (c <> "0"%char \/ forall r, s <> String "x" r) ->
  remove_0x (String c s) = String c (remove_0x s).
Proof.
  intro H.
  destruct c as [[] [] [] [] [] [] [] []]; try reflexivity.
  destruct s as [|a s']; [reflexivity|].
  destruct a as [[] [] [] [] [] [] [] []]; try reflexivity.
  exfalso. destruct H as [H|H]; [apply H; reflexivity | exact (H s' eq_refl)].
Qed.

Lemma digit_not_x c d : digit_val c = Some d -> c <> "x"%char.
Proof. intros H ->. vm_compute in H. discriminate. Qed.
Lemma digit_not_dot c d : digit_val c = Some d -> c <> "."%char.
Proof. intros H ->. vm_compute in H. discriminate. Qed.
Lemma digit_not_sign c d : digit_val c = Some d -> c <> "-"%char /\ c <> "+"%char.
Proof. intros H. split; intros ->; vm_compute in H; discriminate. Qed.

Lemma remove_0x_digits radix s : all_digitsb radix s = true -> remove_0x s = s.
Proof.
  induction s as [|c s IH]; cbn [all_digitsb]; [reflexivity|].
  destruct (digit_val c) as [d|] eqn:E; [|discriminate]. intro H. apply andb_prop in H. destruct H as [_ H].
  rewrite remove_0x_cons; [now rewrite (IH H)|].
  right. intros r ->. cbn [all_digitsb] in H. rewrite digit_val_x in H. discriminate.
Qed.

Lemma digits_val_ok radix s : forall acc, all_digitsb radix s = true -> exists v, digits_val radix s acc = Some v.
Proof.
  induction s as [|c s IH]; intros acc H; cbn in *; [eauto|].
  destruct (digit_val c) as [d|]; [|discriminate]. apply andb_prop in H. destruct H as [H1 H2].
  rewrite H1. apply IH. exact H2.
Qed.

Lemma append_assoc' a b c : ((a ++ b) ++ c)%string = (a ++ b ++ c)%string.
Proof. induction a; cbn; [reflexivity | now rewrite IHa]. Qed.
Lemma append_nil_r' a : (a ++ "")%string = a.
Proof. induction a; cbn; [reflexivity | now rewrite IHa]. Qed.

Lemma split_dot_cons c s acc : c <> "."%char ->
  split_dot (String c s) acc = split_dot s (acc ++ String c EmptyString).
Proof.
  intro H. destruct c as [[] [] [] [] [] [] [] []]; try reflexivity. exfalso. apply H. reflexivity.
Qed.

Lemma split_dot_digits radix s : forall acc, all_digitsb radix s = true -> split_dot s acc = ((acc ++ s)%string, None).
Proof.
  induction s as [|c s IH]; intros acc H.
  - cbn. now rewrite append_nil_r'.
  - cbn [all_digitsb] in H. destruct (digit_val c) as [d|] eqn:E; [|discriminate].
    apply andb_prop in H. destruct H as [_ H].
    rewrite split_dot_cons by (exact (digit_not_dot _ _ E)).
    rewrite (IH _ H), append_assoc'. reflexivity.
Qed.

Lemma split_dot_frac radix s f : forall acc, all_digitsb radix s = true ->
  split_dot (s ++ String "." f) acc = ((acc ++ s)%string, Some f).
Proof.
  induction s as [|c s IH]; intros acc H.
  - cbn. now rewrite append_nil_r'.
  - cbn [all_digitsb] in H. destruct (digit_val c) as [d|] eqn:E; [|discriminate].
    apply andb_prop in H. destruct H as [_ H]. cbn [append].
    rewrite split_dot_cons by (exact (digit_not_dot _ _ E)).
    rewrite (IH _ H), append_assoc'. reflexivity.
Qed.

(* a body of digits carries no sign: from_str_radix takes its default branch *)
Lemma from_str_radix_nosign sg bits radix c s d :
  digit_val c = Some d ->
  from_str_radix sg bits (String c s) radix =
  match digits radix (String c s) with
  | Some v => if (v <? 2 ^ (if sg then bits - 1 else bits))%N then Some (Z.of_N v) else None
  | None => None
  end.
Proof.
  intro H. destruct (digit_not_sign _ _ H) as [H1 H2].
  destruct c as [[] [] [] [] [] [] [] []]; try reflexivity; exfalso; [apply H2 | apply H1]; reflexivity.
Qed.

Ltac norm_pow :=
  repeat match goal with
         | |- context [(2 ^ ?e)%N] => let x := eval vm_compute in (2 ^ e)%N in change (2 ^ e)%N with x
         | |- context [(2 ^ ?e)%Z] => let x := eval vm_compute in (2 ^ e)%Z in change (2 ^ e)%Z with x
         end.

Ltac bool_arith :=
  norm_pow;
  repeat match goal with
         | |- context [(?a <? ?b)%N] => destruct (N.ltb_spec a b)
         | |- context [(?a <=? ?b)%N] => destruct (N.leb_spec a b)
         | |- context [(?a <=? ?b)%Z] => destruct (Z.leb_spec a b)
         end; cbn; try reflexivity; try lia.

Definition is_int (p : prim) : bool := match int_bits p with Some _ => true | None => false end.

Definition sign_str (neg : bool) : string := if neg then "-" else "".

Lemma digits_nonempty radix c s : digits radix (String c s) = digits_val radix (String c s) 0%N.
Proof. reflexivity. Qed.

(* hexadecimal literals *)
Theorem range_check_exact_hex p neg c H d :
  is_int p = true -> digit_val c = Some d -> all_digitsb 16 (String c H) = true ->
  let raw := (sign_str neg ++ "0x" ++ String c H)%string in
  range_check_int p raw = Some (spec_accept_int p raw).
Proof.
  intros Hp Hd HA raw. unfold range_check_int, spec_accept_int.
  assert (R : remove_0x (String c H) = String c H) by (apply (remove_0x_digits 16); exact HA).
  destruct neg; subst raw; cbn [sign_str append].
  - (* "-0x..." *)
    replace (starts_with "0x" (String "-" (String "0" (String "x" (String c H))))) with false by reflexivity.
    replace (starts_with "-0x" (String "-" (String "0" (String "x" (String c H))))) with true by reflexivity.
    cbn [orb].
    assert (R2 : remove_0x (String "-" (String "0" (String "x" (String c H)))) = String "-" (String c H)).
    { rewrite remove_0x_cons by (left; discriminate).
      change (remove_0x (String "0" (String "x" (String c H)))) with (remove_0x (String c H)). now rewrite R. }
    rewrite R2.
    replace (parse_literal (String "-" (String "0" (String "x" (String c H))))) with (mkLit true true (String c H) None) by reflexivity.
    unfold math_int. cbn [l_frac l_hex l_int l_neg].
    destruct p; try discriminate; cbn [int_bits from_str_radix in_range];
      destruct (digits 16 (String c H)) as [v|]; cbn [negb orb andb]; try reflexivity;
      f_equal; bool_arith.
  - (* "0x..." *)
    replace (starts_with "0x" (String "0" (String "x" (String c H)))) with true by reflexivity.
    cbn [orb].
    change (remove_0x (String "0" (String "x" (String c H)))) with (remove_0x (String c H)). rewrite R.
    replace (parse_literal (String "0" (String "x" (String c H)))) with (mkLit false true (String c H) None) by reflexivity.
    unfold math_int. cbn [l_frac l_hex l_int l_neg].
    destruct p; try discriminate; cbn [int_bits];
      rewrite (from_str_radix_nosign _ _ _ _ _ _ Hd); cbn [in_range];
      destruct (digits 16 (String c H)) as [v|]; cbn [negb orb andb]; try reflexivity;
      f_equal; bool_arith.
Qed.

(* ---- decimal literals ---- *)

Lemma ascii_eqb_digit_x c d : digit_val c = Some d -> Ascii.eqb "x" c = false.
Proof. intro H. apply Ascii.eqb_neq. intro E. subst. vm_compute in H. discriminate. Qed.
Lemma ascii_eqb_digit_minus c d : digit_val c = Some d -> Ascii.eqb "-" c = false.
Proof. intro H. apply Ascii.eqb_neq. intro E. subst. vm_compute in H. discriminate. Qed.

(* a string of digits begins neither with "0x" nor with "-" *)
Lemma digits_not_0x radix c s d : digit_val c = Some d -> all_digitsb radix (String c s) = true ->
  starts_with "0x" (String c s) = false.
Proof.
  intros Hd H. unfold starts_with. cbn [String.length substring].
  destruct s as [|c2 s2]; cbn [substring String.eqb].
  - destruct (Ascii.eqb "0" c); reflexivity.
  - cbn [all_digitsb] in H. rewrite Hd in H. apply andb_prop in H. destruct H as [_ H].
    destruct (digit_val c2) as [d2|] eqn:E2; [|discriminate].
    rewrite (ascii_eqb_digit_x _ _ E2). destruct (Ascii.eqb "0" c); reflexivity.
Qed.

Lemma digits_not_minus c s d : digit_val c = Some d -> starts_with "-" (String c s) = false.
Proof.
  intro Hd. unfold starts_with. cbn [String.length substring String.eqb].
  now rewrite (ascii_eqb_digit_minus _ _ Hd).
Qed.

Lemma substring0 s : substring 0 0 s = "".
Proof. destruct s; reflexivity. Qed.

Theorem range_check_exact_dec p neg c D d :
  is_int p = true -> digit_val c = Some d -> all_digitsb 10 (String c D) = true ->
  let raw := (sign_str neg ++ String c D)%string in
  range_check_int p raw = Some (spec_accept_int p raw).
Proof.
  intros Hp Hd HA raw. unfold range_check_int, spec_accept_int.
  assert (R : remove_0x (String c D) = String c D) by (apply (remove_0x_digits 10); exact HA).
  assert (N0 : starts_with "0x" (String c D) = false) by (eapply digits_not_0x; eassumption).
  assert (NM : starts_with "-" (String c D) = false) by (eapply digits_not_minus; eassumption).
  assert (SD : split_dot (String c D) "" = (String c D, None)) by (rewrite (split_dot_digits 10) by exact HA; reflexivity).
  destruct neg; subst raw; cbn [sign_str append].
  - assert (S1 : starts_with "0x" (String "-" (String c D)) = false) by reflexivity.
    assert (S2 : starts_with "-0x" (String "-" (String c D)) = false).
    { unfold starts_with in *. cbn [String.length substring String.eqb] in *.
      rewrite Ascii.eqb_refl. cbn [andb]. exact N0. }
    rewrite S1, S2. cbn [orb].
    rewrite remove_0x_cons by (left; discriminate). rewrite R.
    unfold parse_literal.
    replace (starts_with "-" (String "-" (String c D))) with true by reflexivity.
    cbn [skip_str]. rewrite N0, SD.
    unfold math_int. cbn [l_frac l_hex l_int l_neg].
    destruct p; try discriminate; cbn [int_bits from_str_radix in_range];
      destruct (digits 10 (String c D)) as [v|]; cbn [negb orb andb]; try reflexivity;
      f_equal; bool_arith.
  - rewrite N0.
    replace (starts_with "-0x" (String c D)) with false.
    2:{ unfold starts_with. cbn [String.length substring String.eqb].
        now rewrite (ascii_eqb_digit_minus _ _ Hd). }
    cbn [orb]. rewrite R.
    unfold parse_literal. rewrite NM, N0, SD.
    unfold math_int. cbn [l_frac l_hex l_int l_neg].
    destruct p; try discriminate; cbn [int_bits];
      rewrite (from_str_radix_nosign _ _ _ _ _ _ Hd); cbn [in_range];
      destruct (digits 10 (String c D)) as [v|]; cbn [negb orb andb]; try reflexivity;
      f_equal; bool_arith.
Qed.

(* ---- fractional literals are never integer constants ---- *)
Lemma digits_val_dot radix s f : forall acc, all_digitsb radix s = true ->
  digits_val radix (s ++ String "." f) acc = None.
Proof.
  induction s as [|c s IH]; intros acc H; cbn [append digits_val].
  - reflexivity.
  - cbn [all_digitsb] in H. destruct (digit_val c) as [d|]; [|discriminate].
    apply andb_prop in H. destruct H as [H1 H2]. rewrite H1. now apply IH.
Qed.

Lemma all_digitsb_app_dot radix s f : all_digitsb radix s = true ->
  all_digitsb radix (s ++ String "." f) = false.
Proof.
  induction s as [|c s IH]; intro H; cbn [append all_digitsb]; [reflexivity|].
  cbn [all_digitsb] in H. destruct (digit_val c); [|discriminate].
  apply andb_prop in H. destruct H as [H1 H2]. now rewrite H1, (IH H2).
Qed.

Lemma remove_0x_frac c D F : all_digitsb 10 (String c D) = true -> all_digitsb 10 F = true ->
  remove_0x (String c D ++ String "." F) = (String c D ++ String "." F)%string.
Proof.
  intros HD HF. revert c HD. induction D as [|c2 D IH]; intros c HD.
  - cbn [append]. cbn [all_digitsb] in HD. destruct (digit_val c) as [d|] eqn:E; [|discriminate].
    rewrite remove_0x_cons by (right; intros r X; discriminate).
    rewrite remove_0x_cons by (left; discriminate).
    now rewrite (remove_0x_digits 10 F HF).
  - cbn [append]. cbn [all_digitsb] in HD. destruct (digit_val c) as [d|] eqn:E; [|discriminate].
    apply andb_prop in HD. destruct HD as [_ HD].
    rewrite remove_0x_cons.
    + f_equal. exact (IH c2 HD).
    + right. intros r X. inversion X; subst. cbn [all_digitsb] in HD. rewrite digit_val_x in HD. discriminate.
Qed.

Theorem range_check_exact_frac p neg c D F d :
  is_int p = true -> digit_val c = Some d -> all_digitsb 10 (String c D) = true -> all_digitsb 10 F = true ->
  let raw := (sign_str neg ++ String c D ++ String "." F)%string in
  range_check_int p raw = Some false /\ spec_accept_int p raw = false.
Proof.
  intros Hp Hd HA HF raw.
  assert (DN : forall acc, digits_val 10 (String c D ++ String "." F) acc = None)
    by (intro acc; apply digits_val_dot; exact HA).
  assert (R : remove_0x (String c D ++ String "." F) = (String c D ++ String "." F)%string)
    by (apply remove_0x_frac; assumption).
  assert (SD : split_dot (String c D ++ String "." F) "" = (String c D, Some F))
    by (rewrite (split_dot_frac 10) by exact HA; reflexivity).
  assert (N0 : starts_with "0x" (String c D ++ String "." F) = false).
  { cbn [append]. unfold starts_with. cbn [String.length substring].
    destruct D as [|c2 D2]; cbn [append substring String.eqb].
    - replace (Ascii.eqb "x" ".") with false by reflexivity. destruct (Ascii.eqb "0" c); reflexivity.
    - cbn [all_digitsb] in HA. rewrite Hd in HA. apply andb_prop in HA. destruct HA as [_ HA].
      destruct (digit_val c2) as [d2|] eqn:E2; [|discriminate].
      rewrite (ascii_eqb_digit_x _ _ E2). destruct (Ascii.eqb "0" c); reflexivity. }
  assert (NM : starts_with "-" (String c D ++ String "." F) = false).
  { cbn [append]. unfold starts_with. cbn [String.length substring String.eqb].
    now rewrite (ascii_eqb_digit_minus _ _ Hd). }
  unfold range_check_int, spec_accept_int.
  destruct neg; subst raw; cbn [sign_str]; change ("" ++ ?x)%string with x.
  - change ("-" ++ String c D ++ String "." F)%string with (String "-" (String c D ++ String "." F)).
    assert (S1 : starts_with "0x" (String "-" (String c D ++ String "." F)) = false) by reflexivity.
    assert (S2 : starts_with "-0x" (String "-" (String c D ++ String "." F)) = false).
    { unfold starts_with in *. cbn [append String.length substring String.eqb] in *.
      rewrite Ascii.eqb_refl. cbn [andb]. exact N0. }
    rewrite S1, S2. cbn [orb]. rewrite remove_0x_cons by (left; discriminate). rewrite R.
    unfold parse_literal.
    replace (starts_with "-" (String "-" (String c D ++ String "." F))) with true by reflexivity.
    cbn [skip_str]. rewrite N0, SD. unfold math_int. cbn [l_frac].
    destruct p; try discriminate; cbn [int_bits from_str_radix];
      (split; [|reflexivity]); cbn [append] in *; unfold digits; cbn [append]; rewrite ?DN; reflexivity.
  - rewrite N0.
    replace (starts_with "-0x" (String c D ++ String "." F)) with false.
    2:{ cbn [append]. unfold starts_with. cbn [String.length substring String.eqb].
        now rewrite (ascii_eqb_digit_minus _ _ Hd). }
    cbn [orb]. rewrite R. unfold parse_literal. rewrite NM, N0, SD. unfold math_int. cbn [l_frac].
    destruct p; try discriminate; cbn [int_bits]; (split; [|reflexivity]);
      cbn [append]; rewrite (from_str_radix_nosign _ _ _ _ _ _ Hd); unfold digits;
      change (String c (D ++ String "." F)) with (String c D ++ String "." F)%string; rewrite DN; reflexivity.
Qed.
