(* C02Proofs.v — section order of the slot sequence produced by the plan. *)
Require Import Base Syntax Front Plan.
Require Import spec.Spec_C02 proofs.PlanProofs proofs.NumberingProofs.
Require Export PlanDefs.
Open Scope N_scope.

(* ---- generic list facts ---- *)

Lemma filter_id {A} (P : A -> bool) l : (forall x, In x l -> P x = true) -> filter P l = l.
Proof.
  induction l as [|a l IH]; intro H; cbn; [reflexivity|].
  rewrite (H a (or_introl eq_refl)). f_equal. apply IH. intros x Hx. apply H. now right.
Qed.

Lemma insert_first_at (pred : event -> bool) x : forall L R,
  (forall y, In y L -> pred y = false) ->
  (match R with [] => True | y :: _ => pred y = true end) ->
  insert_first pred x (L ++ R) = L ++ x :: R.
Proof.
  induction L as [|a L IH]; intros R HL HR; cbn [app insert_first].
  - destruct R as [|y R]; [reflexivity|]. cbn [insert_first]. now rewrite HR.
  - rewrite (HL a (or_introl eq_refl)). f_equal. apply IH; [|exact HR].
    intros y Hy. apply HL. now right.
Qed.

(* homogeneous blocks *)
Definition all_eq (c : N) (l : list N) : Prop := Forall (fun k => k = c) l.
Definition all_ge (c : N) (l : list N) : Prop := Forall (fun k => c <= k) l.

Lemma sorted_block c A B :
  all_eq c A -> sections_sorted B = true -> all_ge c B -> sections_sorted (A ++ B) = true.
Proof.
  induction A as [|a A IH]; intros HA HB HG; [exact HB|].
  inversion HA; subst. cbn [app].
  specialize (IH H2 HB HG).
  destruct (A ++ B) as [|b r] eqn:E; [reflexivity|].
  assert (G : sections_sorted (c :: b :: r) = ((c <=? b) && sections_sorted (b :: r))) by reflexivity.
  rewrite G, IH, andb_true_r. apply N.leb_le.
  destruct A as [|a' A']; cbn [app] in E.
  - subst B. inversion HG; subst. assumption.
  - inversion E; subst. inversion H2; subst. lia.
Qed.

Lemma all_ge_app c A B : all_ge c A -> all_ge c B -> all_ge c (A ++ B).
Proof. intros; apply Forall_app; split; assumption. Qed.
Lemma all_eq_ge c d A : all_eq d A -> c <= d -> all_ge c A.
Proof. intros H Hle. eapply Forall_impl; [|exact H]. cbn. intros k ->. exact Hle. Qed.
Lemma all_ge_weaken c d A : all_ge d A -> c <= d -> all_ge c A.
Proof. intros H Hle. eapply Forall_impl; [|exact H]. cbn. intros k Hk. lia. Qed.

(* ---- slots of each bucket ---- *)

Definition secs_of (l : list mparam) : list N := map skind_code (flat_map param_slots l).

Lemma repeat_all_eq k n : all_eq (skind_code k) (map skind_code (repeat_k k n)).
Proof. unfold repeat_k. induction (N.to_nat n); cbn; constructor; [reflexivity | assumption]. Qed.

Lemma param_secs_rank p :
  objstruct_value p = false ->
  all_eq (match rank p with 0 => 0 | 1 => 1 | 2 => 2 | 3 => 3 | 4 => 2 | _ => 3 end)
         (map skind_code (param_slots p)).
Proof.
  unfold objstruct_value, rank, param_slots, p_iface, is_val, is_array.
  destruct p as [o t sh nm]; cbn [mp_out mp_ty mp_shape].
  destruct sh as [|cnt]; destruct t as [|q|n|sn fs]; destruct o; cbn [is_miface is_mstruct negb andb];
    intro H; try (repeat constructor; fail); try apply repeat_all_eq.
  - apply negb_false_iff in H. apply N.eqb_eq in H. rewrite H. repeat constructor.
  - apply negb_false_iff in H. apply N.eqb_eq in H. rewrite H. repeat constructor.
  - exact (repeat_all_eq OO _).
  - exact (repeat_all_eq OI _).
Qed.

Lemma secs_bucket r c l :
  (forall p, In p l -> rank p = r /\ objstruct_value p = false) ->
  (match r with 0 => 0 | 1 => 1 | 2 => 2 | 3 => 3 | 4 => 2 | _ => 3 end) = c ->
  all_eq c (secs_of l).
Proof.
  intros H <-. unfold secs_of. induction l as [|p l IH]; cbn [flat_map map]; [constructor|].
  rewrite map_app. apply Forall_app. split.
  - destruct (H p (or_introl eq_refl)) as [Hr Ho]. rewrite <- Hr. now apply param_secs_rank.
  - apply IH. intros q Hq. apply H. now right.
Qed.

(* ---- closed form of with_bundling ---- *)

Lemma bundleable_rank p : bundleable p = true -> p_iface p = false.
Proof.
  unfold bundleable, is_prim_value, is_small_struct_value, p_iface.
  destruct (mp_ty p); cbn; intros H; try reflexivity.
  rewrite !andb_false_r in H. discriminate.
Qed.

Lemma rank_ge2_not_bundleable p : 2 <= rank p -> bundleable p = false.
Proof.
  intro H. destruct (bundleable p) eqn:E; [|reflexivity].
  apply bundleable_rank in E. unfold rank in H. rewrite E in H. destruct (mp_out p); lia.
Qed.

Lemma rank_out p : mp_out p = (rank p =? 1) || (rank p =? 3) || (rank p =? 5).
Proof. unfold rank. destruct (p_iface p), (is_array p), (mp_out p); reflexivity. Qed.

Lemma existsb_false_filter {A} (P : A -> bool) l : existsb P l = false -> filter P l = [].
Proof.
  induction l as [|a l IH]; cbn; [reflexivity|]. intro H.
  apply orb_false_iff in H. destruct H as [H1 H2]. rewrite H1. now apply IH.
Qed.

Lemma flat_map_EParam l : flat_map event_slots (map EParam l) = flat_map param_slots l.
Proof. induction l; cbn; [reflexivity | now rewrite IHl]. Qed.

Lemma In_bucket r p ps : In p (bucket r ps) -> rank p = r /\ In p ps.
Proof. unfold bucket. intro H. apply filter_In in H. destruct H as [H1 H2]. apply N.eqb_eq in H2. tauto. Qed.

Definition pin_of (ps : list mparam) := packed false ps.
Definition pout_of (ps : list mparam) := packed true ps.
Definition bi_of (ps : list mparam) : bool := (1 <? N.of_nat (List.length (pin_of ps))).
Definition bo_of (ps : list mparam) : bool := (1 <? N.of_nat (List.length (pout_of ps))).
Definition F1 (ps : list mparam) := fun x : mparam => negb (bi_of ps && negb (mp_out x) && bundleable x).
Definition F2 (ps : list mparam) := fun x : mparam => negb (bo_of ps && mp_out x && bundleable x).
Definition R0 (ps : list mparam) := filter (F2 ps) (filter (F1 ps) (bucket 0 ps)).
Definition R1 (ps : list mparam) := filter (F2 ps) (filter (F1 ps) (bucket 1 ps)).
Definition tail_params (ps : list mparam) : list mparam :=
  R1 ps ++ bucket 2 ps ++ bucket 3 ps ++ bucket 4 ps ++ bucket 5 ps.

Lemma filter_high ps r : 2 <= r -> filter (F2 ps) (filter (F1 ps) (bucket r ps)) = bucket r ps.
Proof.
  intro Hr. rewrite (filter_id (F1 ps)), (filter_id (F2 ps)); try reflexivity.
  - intros x Hx. apply In_bucket in Hx. destruct Hx as [Hx _].
    unfold F2. rewrite rank_ge2_not_bundleable by lia. now rewrite andb_false_r.
  - intros x Hx. apply In_bucket in Hx. destruct Hx as [Hx _].
    unfold F1. rewrite rank_ge2_not_bundleable by lia. now rewrite andb_false_r.
Qed.

Lemma rest_closed ps :
  filter (F2 ps) (filter (F1 ps) (sort_params ps)) =
  R0 ps ++ R1 ps ++ bucket 2 ps ++ bucket 3 ps ++ bucket 4 ps ++ bucket 5 ps.
Proof.
  rewrite sort_is_buckets. unfold buckets. rewrite !filter_app.
  rewrite (filter_high ps 2), (filter_high ps 3), (filter_high ps 4), (filter_high ps 5) by lia. reflexivity.
Qed.

Lemma R0_rank ps p : In p (R0 ps) -> rank p = 0 /\ In p ps.
Proof. unfold R0. intro H. apply filter_In in H. destruct H as [H _]. apply filter_In in H.
       destruct H as [H _]. now apply In_bucket in H. Qed.
Lemma R1_rank ps p : In p (R1 ps) -> rank p = 1 /\ In p ps.
Proof. unfold R1. intro H. apply filter_In in H. destruct H as [H _]. apply filter_In in H.
       destruct H as [H _]. now apply In_bucket in H. Qed.

Lemma tail_rank ps p : In p (tail_params ps) -> 1 <= rank p.
Proof.
  unfold tail_params. rewrite !in_app_iff.
  intros [H|[H|[H|[H|H]]]]; [apply R1_rank in H | apply In_bucket in H ..]; destruct H as [H _]; lia.
Qed.

Theorem with_bundling_closed ps :
  with_bundling ps =
  (if bi_of ps then [EBundle false (pin_of ps)] else []) ++ map EParam (R0 ps) ++
  (if bo_of ps then [EBundle true (pout_of ps)] else []) ++ map EParam (tail_params ps).
Proof.
  unfold with_bundling.
  change (filter (fun x => negb ((1 <? N.of_nat (List.length (packed true ps))) && mp_out x && bundleable x))
           (filter (fun x => negb ((1 <? N.of_nat (List.length (packed false ps))) && negb (mp_out x) && bundleable x)) (sort_params ps)))
    with (filter (F2 ps) (filter (F1 ps) (sort_params ps))).
  rewrite rest_closed. fold (tail_params ps).
  change (1 <? N.of_nat (List.length (packed false ps))) with (bi_of ps).
  change (1 <? N.of_nat (List.length (packed true ps))) with (bo_of ps).
  change (packed false ps) with (pin_of ps). change (packed true ps) with (pout_of ps).
  destruct (bo_of ps) eqn:EBO.
  - rewrite map_app, app_assoc.
    rewrite insert_first_at.
    + rewrite <- app_assoc. reflexivity.
    + intros y Hy. apply in_app_or in Hy. destruct Hy as [Hy|Hy].
      * destruct (bi_of ps); [|destruct Hy]. destruct Hy as [<-|[]]. reflexivity.
      * apply in_map_iff in Hy. destruct Hy as (p & <- & Hp). apply R0_rank in Hp.
        rewrite param_lt_is_rank. destruct Hp as [Hp _]. rewrite Hp. reflexivity.
    + destruct (tail_params ps) as [|p l] eqn:ET; cbn [map]; [exact I|].
      assert (Hp : 1 <= rank p) by (apply (tail_rank ps); rewrite ET; now left).
      rewrite param_lt_is_rank. apply negb_true_iff. apply N.ltb_ge. exact Hp.
  - rewrite map_app. cbn [app]. reflexivity.
Qed.

Section Sorted.
  Variable ps : list mparam.
  Hypothesis Hobj : has_objstruct_value ps = false.
  Hypothesis H34 : objarr_after_out ps = false.
  Lemma no_objstruct p : In p ps -> objstruct_value p = false.
  Proof.
    intro Hp. destruct (objstruct_value p) eqn:E; [|reflexivity].
    unfold has_objstruct_value in Hobj.
    assert (existsb objstruct_value ps = true) by (apply existsb_exists; exists p; tauto).
    congruence.
  Qed.

  Lemma secs_b r c : (match r with 0 => 0 | 1 => 1 | 2 => 2 | 3 => 3 | 4 => 2 | _ => 3 end) = c ->
    all_eq c (secs_of (bucket r ps)).
  Proof.
    intro H. apply (secs_bucket r); [|exact H].
    intros p Hp. apply In_bucket in Hp. destruct Hp as [Hr Hp]. split; [exact Hr | now apply no_objstruct].
  Qed.

  Lemma b34 : bucket 3 ps = [] \/ bucket 4 ps = [].
  Proof.
    unfold objarr_after_out in H34. apply andb_false_iff in H34.
    destruct H34 as [H|H]; [left|right]; unfold bucket; now apply existsb_false_filter.
  Qed.

  Theorem plan_sections_sorted : sections_sorted (plan_secs ps) = true.
  Proof.
    unfold plan_secs, plan_slots. rewrite with_bundling_closed.
    rewrite !flat_map_app, !flat_map_EParam. unfold tail_params.
    set (bo := bo_of ps). set (bi := bi_of ps). set (pout := pout_of ps). set (R0 := R0 ps). set (R1 := R1 ps).
    rewrite !flat_map_app, !map_app.
    fold (secs_of R0) (secs_of R1) (secs_of (bucket 2 ps)) (secs_of (bucket 3 ps))
         (secs_of (bucket 4 ps)) (secs_of (bucket 5 ps)).
    assert (A0 : all_eq 0 (secs_of R0)).
    { apply (secs_bucket 0); [|reflexivity]. intros p Hp. apply (R0_rank ps) in Hp.
      destruct Hp as [Hr Hp]. split; [exact Hr | now apply no_objstruct]. }
    assert (A1 : all_eq 1 (secs_of R1)).
    { apply (secs_bucket 1); [|reflexivity]. intros p Hp. apply (R1_rank ps) in Hp.
      destruct Hp as [Hr Hp]. split; [exact Hr | now apply no_objstruct]. }
    pose proof (secs_b 2 2 eq_refl) as A2. pose proof (secs_b 3 3 eq_refl) as A3.
    pose proof (secs_b 4 2 eq_refl) as A4. pose proof (secs_b 5 3 eq_refl) as A5.
    assert (T5 : sections_sorted (secs_of (bucket 5 ps)) = true).
    { rewrite <- (app_nil_r (secs_of (bucket 5 ps))). apply (sorted_block 3); [exact A5|reflexivity|constructor]. }
    assert (T345 : sections_sorted (secs_of (bucket 3 ps) ++ secs_of (bucket 4 ps) ++ secs_of (bucket 5 ps)) = true
                   /\ all_ge 2 (secs_of (bucket 3 ps) ++ secs_of (bucket 4 ps) ++ secs_of (bucket 5 ps))).
    { assert (SN0 : secs_of [] = []) by reflexivity.
      destruct b34 as [E|E]; rewrite E; rewrite !SN0; cbn [app]; rewrite ?app_nil_l.
      - split.
        + apply (sorted_block 2); [exact A4 | exact T5 | apply (all_eq_ge 2 3); [exact A5 | lia]].
        + apply all_ge_app; [apply (all_eq_ge 2 2); [exact A4|lia] | apply (all_eq_ge 2 3); [exact A5|lia]].
      - split.
        + apply (sorted_block 3); [exact A3 | exact T5 | apply (all_eq_ge 3 3); [exact A5|lia]].
        + apply all_ge_app; [apply (all_eq_ge 2 3); [exact A3|lia]|].
          apply (all_eq_ge 2 3); [exact A5|lia]. }
    destruct T345 as [T345 G345].
    assert (T2 : sections_sorted (secs_of (bucket 2 ps) ++ secs_of (bucket 3 ps) ++ secs_of (bucket 4 ps) ++ secs_of (bucket 5 ps)) = true).
    { apply (sorted_block 2); [exact A2 | exact T345 | exact G345]. }
    assert (G2 : all_ge 1 (secs_of (bucket 2 ps) ++ secs_of (bucket 3 ps) ++ secs_of (bucket 4 ps) ++ secs_of (bucket 5 ps))).
    { apply all_ge_app; [apply (all_eq_ge 1 2); [exact A2|lia] | apply (all_ge_weaken 1 2); [exact G345|lia]]. }
    assert (T1 : sections_sorted (secs_of R1 ++ secs_of (bucket 2 ps) ++ secs_of (bucket 3 ps) ++ secs_of (bucket 4 ps) ++ secs_of (bucket 5 ps)) = true).
    { apply (sorted_block 1); [exact A1 | exact T2 | exact G2]. }
    assert (G1 : all_ge 1 (secs_of R1 ++ secs_of (bucket 2 ps) ++ secs_of (bucket 3 ps) ++ secs_of (bucket 4 ps) ++ secs_of (bucket 5 ps))).
    { apply all_ge_app; [apply (all_eq_ge 1 1); [exact A1|lia] | exact G2]. }
    set (TAIL := secs_of R1 ++ secs_of (bucket 2 ps) ++ secs_of (bucket 3 ps) ++ secs_of (bucket 4 ps) ++ secs_of (bucket 5 ps)) in *.
    assert (TB : sections_sorted (map skind_code (flat_map event_slots (if bo then [EBundle true pout] else [])) ++ TAIL) = true
                 /\ all_ge 0 (map skind_code (flat_map event_slots (if bo then [EBundle true pout] else [])) ++ TAIL)).
    { destruct bo; cbn [flat_map event_slots map app skind_code].
      - split; [apply (sorted_block 1 [1]); [repeat constructor | exact T1 | exact G1]|].
        constructor; [lia | apply (all_ge_weaken 0 1); [exact G1|lia]].
      - split; [exact T1 | apply (all_ge_weaken 0 1); [exact G1|lia]]. }
    destruct TB as [TB GB].
    assert (T0 : sections_sorted (secs_of R0 ++ map skind_code (flat_map event_slots (if bo then [EBundle true pout] else [])) ++ TAIL) = true).
    { apply (sorted_block 0); [exact A0 | exact TB | exact GB]. }
    assert (G0 : all_ge 0 (secs_of R0 ++ map skind_code (flat_map event_slots (if bo then [EBundle true pout] else [])) ++ TAIL)).
    { apply all_ge_app; [apply (all_eq_ge 0 0); [exact A0|lia] | exact GB]. }
    destruct bi; cbn [flat_map event_slots map app skind_code].
    - apply (sorted_block 0 [0]); [repeat constructor | exact T0 | exact G0].
    - exact T0.
  Qed.
End Sorted.

(* ---- the packed word ---- *)

Definition all_nibbles : list (N * N * N * N) :=
  flat_map (fun a => flat_map (fun b => flat_map (fun c => map (fun d => (a, b, c, d)) (nseq 0 16)) (nseq 0 16)) (nseq 0 16)) (nseq 0 16).

Lemma pack_unpack_sweep :
  forallb (fun q => quad_eqb (unpack_counts (pack_counts q)) q) all_nibbles = true.
Proof. vm_compute. reflexivity. Qed.

Lemma in_all_nibbles a b c d : a <= 15 -> b <= 15 -> c <= 15 -> d <= 15 -> In (a, b, c, d) all_nibbles.
Proof.
  intros Ha Hb Hc Hd. unfold all_nibbles.
  apply in_flat_map. exists a. split; [apply nseq_In; cbn; lia|].
  apply in_flat_map. exists b. split; [apply nseq_In; cbn; lia|].
  apply in_flat_map. exists c. split; [apply nseq_In; cbn; lia|].
  apply in_map_iff. exists d. split; [reflexivity | apply nseq_In; cbn; lia].
Qed.

Theorem pack_unpack_below_16 a b c d :
  a <= 15 -> b <= 15 -> c <= 15 -> d <= 15 -> unpack_counts (pack_counts (a, b, c, d)) = (a, b, c, d).
Proof.
  intros Ha Hb Hc Hd.
  pose proof (proj1 (forallb_forall _ _) pack_unpack_sweep _ (in_all_nibbles a b c d Ha Hb Hc Hd)) as H.
  cbv beta in H. destruct (unpack_counts (pack_counts (a, b, c, d))) as [[[a' b'] c'] d'].
  unfold quad_eqb in H. repeat (apply andb_prop in H; destruct H as [H ?]).
  apply N.eqb_eq in H, H0, H1, H2. subst. reflexivity.
Qed.

(* a count of 16 silently overflows into the neighbouring field *)
Example pack_overflow_witness : unpack_counts (pack_counts (0, 0, 16, 0)) = (0, 0, 0, 1).
Proof. vm_compute. reflexivity. Qed.
