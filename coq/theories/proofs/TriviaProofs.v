(* TriviaProofs.v — comment pairs at the positions where pst.rs filters them have no effect on
   the AST; a documentation comment reaches exactly the next member and only functions keep it. *)
Require Import Base Syntax Consts Pst.
Open Scope string_scope.
Open Scope list_scope.

Definition is_comment (t : tree) : bool := is_rule "COMMENT" t.

Lemma comment_not_decl t : is_comment t = true ->
  is_rule "include" t = false /\ is_rule "struct" t = false /\ is_rule "const" t = false /\
  is_rule "interface" t = false /\ is_rule "struct_field" t = false /\
  is_rule "function" t = false /\ is_rule "error" t = false.
Proof.
  unfold is_comment, is_rule. intro H. apply String.eqb_eq in H. rewrite H. repeat split; reflexivity.
Qed.

(* file level: a comment (of any kind) between declarations changes nothing *)
Theorem comment_at_top_level md ub c l1 l2 : is_comment c = true ->
  nodes_of md ub (l1 ++ c :: l2) = nodes_of md ub (l1 ++ l2).
Proof.
  intro H. destruct (comment_not_decl _ H) as (A & B & C & D & _).
  induction l1 as [|t l1 IH]; cbn [app nodes_of].
  - now rewrite A, B, C, D.
  - now rewrite IH.
Qed.

(* struct body: a comment between fields changes nothing *)
Theorem comment_in_struct_body md c l1 l2 : is_comment c = true ->
  fields_of md (l1 ++ c :: l2) = fields_of md (l1 ++ l2).
Proof.
  intro H. destruct (comment_not_decl _ H) as (_ & _ & _ & _ & E & _).
  induction l1 as [|t l1 IH]; cbn [app fields_of].
  - unfold is_comment in H. now rewrite E, H.
  - now rewrite IH.
Qed.

(* interface body.  [keep]: whether an ordinary comment keeps the pending documentation
   (PstFacts.pst_comment_keeps_doc; the pinned upstream code discarded it) *)
Definition ordinary (c : tree) : bool := is_comment c && match doc_of c with None => true | Some _ => false end.

Lemma members_of_cons keep md ub t r p :
  members_of_gen keep md ub (t :: r) p =
  if is_rule "COMMENT" t then members_of_gen keep md ub r (next_pending keep p t)
  else if is_rule "const" t || is_rule "function" t || is_rule "error" t then
    do m <- member_of md ub p t; do ms <- members_of_gen keep md ub r None; Ok (m :: ms)
  else Reject ROther.
Proof. reflexivity. Qed.

Lemma ordinary_pending keep c : ordinary c = true -> next_pending keep None c = None.
Proof.
  unfold ordinary, next_pending. intro H. apply andb_prop in H. destruct H as [_ H].
  destruct (doc_of c); [discriminate|]. now destruct keep.
Qed.

(* an ordinary comment changes nothing as long as no documentation is pending at that point *)
Theorem ordinary_comment_in_interface_body keep md ub c l2 : ordinary c = true ->
  members_of_gen keep md ub (c :: l2) None = members_of_gen keep md ub l2 None.
Proof.
  intro H. rewrite members_of_cons. pose proof H as H'. unfold ordinary in H'. apply andb_prop in H'. destruct H' as [H1 _].
  unfold is_comment in H1. rewrite H1. now rewrite (ordinary_pending keep c H).
Qed.

Theorem ordinary_comment_after_member keep md ub c m l1 l2 : ordinary c = true ->
  is_comment m = false ->
  forall p, members_of_gen keep md ub (l1 ++ m :: c :: l2) p = members_of_gen keep md ub (l1 ++ m :: l2) p.
Proof.
  intros HC HM. induction l1 as [|t l1 IH]; intro p; cbn [app].
  - rewrite !(members_of_cons keep md ub m). unfold is_comment in HM. rewrite HM.
    destruct (is_rule "const" m || is_rule "function" m || is_rule "error" m); [|reflexivity].
    now rewrite (ordinary_comment_in_interface_body keep md ub c l2 HC).
  - rewrite !(members_of_cons keep md ub t). destruct (is_rule "COMMENT" t); [apply IH|].
    destruct (is_rule "const" t || is_rule "function" t || is_rule "error" t); [|reflexivity].
    now rewrite IH.
Qed.

(* with the repaired handling an ordinary comment changes nothing anywhere in an interface body,
   whatever is pending *)
Theorem ordinary_comment_anywhere md ub c l1 l2 : ordinary c = true ->
  forall p, members_of_gen true md ub (l1 ++ c :: l2) p = members_of_gen true md ub (l1 ++ l2) p.
Proof.
  intro HC. pose proof HC as H'. unfold ordinary in H'. apply andb_prop in H'. destruct H' as [H1 H2].
  unfold is_comment in H1.
  induction l1 as [|t l1 IH]; intro p; cbn [app].
  - rewrite members_of_cons, H1. unfold next_pending. destruct (doc_of c); [discriminate | reflexivity].
  - rewrite !(members_of_cons true md ub t). destruct (is_rule "COMMENT" t); [apply IH|].
    destruct (is_rule "const" t || is_rule "function" t || is_rule "error" t); [|reflexivity].
    now rewrite IH.
Qed.

(* the pinned upstream handling: placed between a documentation block and its method an ordinary
   comment discards the documentation; the repaired handling keeps it *)
Definition doc_tree := T "COMMENT" "" [T "DOCUMENTATION" "/**
 * d
 */" []].
Definition ord_tree := T "COMMENT" "// x" [].
Definition fn_tree := T "function" "" [T "function_keyword" "method " []; T "ident" "f" []].

Theorem doc_then_comment_loses_doc_upstream :
  members_of_gen false Debug false [doc_tree; fn_tree] None = Ok [IFunc (mkFn "f" [] false (Some "*
 * d
 *"))] /\
  members_of_gen false Debug false [doc_tree; ord_tree; fn_tree] None = Ok [IFunc (mkFn "f" [] false None)].
Proof. split; vm_compute; reflexivity. Qed.

Theorem doc_then_comment_keeps_doc_repaired :
  members_of_gen true Debug false [doc_tree; ord_tree; fn_tree] None = members_of_gen true Debug false [doc_tree; fn_tree] None.
Proof. vm_compute. reflexivity. Qed.

(* documentation reaches the next member only, and only a function keeps it *)
Theorem doc_binds_next_member_only keep md ub d m rest p : is_comment d = true -> is_comment m = false ->
  members_of_gen keep md ub (d :: m :: rest) p =
  (if is_rule "const" m || is_rule "function" m || is_rule "error" m
   then do x <- member_of md ub (next_pending keep p d) m; do xs <- members_of_gen keep md ub rest None; Ok (x :: xs)
   else Reject ROther).
Proof.
  intros HD HM. rewrite (members_of_cons keep md ub d), (members_of_cons keep md ub m). unfold is_comment in *. now rewrite HD, HM.
Qed.

Lemma member_doc_only_function md ub d1 d2 m : is_rule "function" m = false ->
  member_of md ub d1 m = member_of md ub d2 m.
Proof. intro H. unfold member_of. rewrite H. reflexivity. Qed.
