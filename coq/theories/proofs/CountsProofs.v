(* CountsProofs.v — the counts word the Counter computes equals the section multiplicities of the
   slot sequence the visitors emit, for every parameter list the Counter accepts, provided no
   small (<= 16 byte) struct value carries objects (the Counter does not count those: K_interleave). *)
Require Import Base Syntax Front Plan.
Require Import spec.Spec_C02 proofs.PlanProofs proofs.C02Proofs proofs.C03Proofs.
Require Import Permutation.
Open Scope N_scope.

(* ---- sums over parameter lists ---- *)
Definition msum {A} (h : A -> N) (l : list A) : N := fold_right (fun p a => h p + a) 0 l.

Lemma msum_nil {A} (h : A -> N) : msum h [] = 0.
Proof. reflexivity. Qed.
Lemma msum_cons {A} (h : A -> N) x l : msum h (x :: l) = h x + msum h l.
Proof. reflexivity. Qed.

Lemma msum_app {A} (h : A -> N) a b : msum h (a ++ b) = msum h a + msum h b.
Proof.
  induction a as [|x a IH]; cbn [app]; [rewrite msum_nil; lia|].
  rewrite !msum_cons, IH. lia.
Qed.

Lemma msum_perm {A} (h : A -> N) a b : Permutation a b -> msum h a = msum h b.
Proof.
  induction 1; rewrite ?msum_cons; try lia.
Qed.

Lemma msum_ext {A} (h g : A -> N) l : (forall x, In x l -> h x = g x) -> msum h l = msum g l.
Proof.
  induction l as [|x l IH]; intro H; [reflexivity|].
  rewrite !msum_cons, (H x (or_introl eq_refl)), IH; [reflexivity|]. intros y Hy. apply H. now right.
Qed.

Lemma msum_filter {A} (h : A -> N) (F : A -> bool) l :
  msum h (filter F l) = msum (fun p => if F p then h p else 0) l.
Proof.
  induction l as [|x l IH]; [reflexivity|].
  cbn [filter]. rewrite msum_cons. destruct (F x); rewrite ?msum_cons, IH; lia.
Qed.

Lemma msum_plus {A} (h g : A -> N) l : msum (fun p => h p + g p) l = msum h l + msum g l.
Proof.
  induction l as [|x l IH]; [reflexivity|]. rewrite !msum_cons, IH. lia.
Qed.

Lemma msum_indicator {A} (F : A -> bool) l :
  msum (fun p => if F p then 1 else 0) l = N.of_nat (List.length (filter F l)).
Proof.
  induction l as [|x l IH]; [reflexivity|].
  rewrite msum_cons, IH. cbn [filter]. destruct (F x); cbn [List.length]; lia.
Qed.

(* ---- multiplicities ---- *)
Lemma mult_cons k x l : mult k (x :: l) = (if k =? x then 1 else 0) + mult k l.
Proof. unfold mult. cbn [filter]. destruct (k =? x); cbn [List.length]; lia. Qed.

Lemma mult_app k a b : mult k (a ++ b) = mult k a + mult k b.
Proof. unfold mult. rewrite filter_app, app_length. lia. Qed.

Definition psecs (p : mparam) : list N := map skind_code (param_slots p).
Definition esecs (e : event) : list N := map skind_code (event_slots e).

Lemma mult_flat_events k evs :
  mult k (map skind_code (flat_map event_slots evs)) = msum (fun e => mult k (esecs e)) evs.
Proof.
  induction evs as [|e evs IH]; [reflexivity|].
  cbn [flat_map]. rewrite msum_cons, map_app, mult_app, IH. reflexivity.
Qed.

Lemma msum_map_EParam k l : msum (fun e => mult k (esecs e)) (map EParam l) = msum (fun p => mult k (psecs p)) l.
Proof. induction l as [|p l IH]; [reflexivity|]. cbn [map]. rewrite !msum_cons, IH. reflexivity. Qed.

(* ---- permutations ---- *)
Lemma insert_first_perm pred (x : event) l : Permutation (insert_first pred x l) (x :: l).
Proof.
  induction l as [|y r IH]; cbn [insert_first]; [apply Permutation_refl|].
  destruct (pred y); [apply Permutation_refl|].
  eapply Permutation_trans; [apply perm_skip; exact IH | apply perm_swap].
Qed.

Lemma ins_perm x l : Permutation (ins x l) (x :: l).
Proof.
  induction l as [|y r IH]; cbn [ins]; [apply Permutation_refl|].
  destruct (param_lt y x); [|apply Permutation_refl].
  eapply Permutation_trans; [apply perm_skip; exact IH | apply perm_swap].
Qed.

Lemma sort_params_perm ps : Permutation (sort_params ps) ps.
Proof.
  induction ps as [|x r IH]; cbn [sort_params]; [apply Permutation_refl|].
  eapply Permutation_trans; [apply ins_perm | apply perm_skip; exact IH].
Qed.

(* the events of a plan, as a multiset *)
Definition keep (ps : list mparam) (p : mparam) : bool := F1 ps p && F2 ps p.

Lemma with_bundling_perm ps :
  Permutation (with_bundling ps)
    ((if bo_of ps then [EBundle true (pout_of ps)] else []) ++
     (if bi_of ps then [EBundle false (pin_of ps)] else []) ++
     map EParam (filter (F2 ps) (filter (F1 ps) (sort_params ps)))).
Proof.
  unfold with_bundling.
  change (filter (fun x => negb ((1 <? N.of_nat (List.length (packed true ps))) && mp_out x && bundleable x))
           (filter (fun x => negb ((1 <? N.of_nat (List.length (packed false ps))) && negb (mp_out x) && bundleable x)) (sort_params ps)))
    with (filter (F2 ps) (filter (F1 ps) (sort_params ps))).
  change (1 <? N.of_nat (List.length (packed false ps))) with (bi_of ps).
  change (1 <? N.of_nat (List.length (packed true ps))) with (bo_of ps).
  change (packed false ps) with (pin_of ps). change (packed true ps) with (pout_of ps).
  destruct (bo_of ps); cbn [app]; [apply insert_first_perm | apply Permutation_refl].
Qed.

Theorem mult_plan k ps :
  mult k (plan_secs ps) =
  (if bo_of ps then mult k [1] else 0) + (if bi_of ps then mult k [0] else 0) +
  msum (fun p => if keep ps p then mult k (psecs p) else 0) ps.
Proof.
  unfold plan_secs, plan_slots. rewrite mult_flat_events.
  rewrite (msum_perm _ _ _ (with_bundling_perm ps)).
  rewrite !msum_app, msum_map_EParam.
  rewrite msum_filter, msum_filter.
  rewrite (msum_perm _ _ _ (sort_params_perm ps)).
  assert (E : msum (fun p => if F1 ps p then if F2 ps p then mult k (psecs p) else 0 else 0) ps =
              msum (fun p => if keep ps p then mult k (psecs p) else 0) ps).
  { apply msum_ext. intros x _. unfold keep. destruct (F1 ps x), (F2 ps x); reflexivity. }
  rewrite E.
  destruct (bo_of ps), (bi_of ps); rewrite ?msum_cons, ?msum_nil; cbn [esecs event_slots map skind_code]; lia.
Qed.

(* ---- what the Counter adds per parameter ---- *)
Definition buf_inc (p : mparam) : N := if negb (p_iface p) && negb (bundleable p) then 1 else 0.
Definition obj_inc (p : mparam) : N :=
  match mp_ty p, mp_shape p with
  | MIface _, PVal => 1
  | MIface _, PArr (Some k) => k
  | MStruct _ _, PVal => if is_small (mp_ty p) then 0 else n_objs (mp_ty p)
  | _, _ => 0
  end.
Definition dirn (out : bool) (p : mparam) (v : N) : N := if Bool.eqb (mp_out p) out then v else 0.

Lemma u8_add_ok a b v : u8_add Debug a b = Ok v -> v = a + b.
Proof. unfold u8_add. destruct (a + b <? 256); intro H; inversion H. reflexivity. Qed.
Lemma u8_try_ok x v : u8_try x = Ok v -> v = x.
Proof. unfold u8_try. destruct (x <? 256); intro H; inversion H. reflexivity. Qed.

Ltac u8 :=
  repeat match goal with
         | H : (do _ <- ?e; _) = Ok _ |- _ =>
             let E := fresh "E" in destruct e eqn:E; cbn [obind] in H; try discriminate
         | H : u8_add Debug _ _ = Ok _ |- _ => apply u8_add_ok in H; subst
         | H : u8_try _ = Ok _ |- _ => apply u8_try_ok in H; subst
         | H : Ok _ = Ok _ |- _ => inversion H; subst; clear H
         end.

Lemma count_param_spec s p s' :
  count_param Debug s p = Ok s' ->
  nbi (cs s') = nbi (cs s) + dirn false p (buf_inc p) /\
  nbo (cs s') = nbo (cs s) + dirn true p (buf_inc p) /\
  noi (cs s') = noi (cs s) + dirn false p (obj_inc p) /\
  noo (cs s') = noo (cs s) + dirn true p (obj_inc p) /\
  hb_in s' = (hb_in s || (negb (mp_out p) && bundleable p)) /\
  hb_out s' = (hb_out s || (mp_out p && bundleable p)).
Proof.
  destruct s as [[bi bo oi oo] hi ho]. destruct p as [o t sh nm].
  unfold count_param, dirn, buf_inc, obj_inc, bundleable, is_prim_value, is_small_struct_value, is_val, is_array, p_iface.
  cbn [mp_out mp_ty mp_shape cs nbi nbo noi noo hb_in hb_out].
  destruct sh as [|cnt]; destruct t as [|q|n|sn fs]; destruct o;
    cbn [is_miface is_mstruct is_prim negb andb orb Bool.eqb];
    try destruct cnt as [k|]; try destruct (is_small (MStruct sn fs));
    intro H; try discriminate; u8;
    cbn [cs nbi nbo noi noo hb_in hb_out]; rewrite ?Bool.orb_false_r, ?Bool.orb_true_r;
    repeat split; try reflexivity; try lia; cbn [negb]; lia.
Qed.
