(* CountsProofs.v — the counts word the Counter computes equals the section multiplicities of the
   slot sequence the visitors emit, for every parameter list the Counter accepts, provided no
   small (<= 16 byte) struct value carries objects (the Counter does not count those: K_interleave). *)
Require Import Base Syntax Front Plan.
Require Import gen.CounterFacts.
Require Import spec.Spec_C02 proofs.PlanProofs proofs.C02Proofs proofs.C03Proofs.
Require Import Permutation.
Open Scope N_scope.

(* ---- sums over parameter lists ---- *)
Definition msum {A} (h : A -> N) (l : list A) : N := fold_right (fun p a => h p + a) 0 l.

Lemma msum_nil {A} (h : A -> N) : msum h [] = 0.
Proof. reflexivity. Qed.
Lemma msum_cons {A} (h : A -> N) x l : msum h (x :: l) = h x + msum h l.
Proof. reflexivity. Qed.

Lemma msum_app {A} (h : A -> N) a b : msum h (a ++ b) = msum h a + msum h b.
Proof.
  induction a as [|x a IH]; cbn [app]; [rewrite msum_nil; lia|].
  rewrite !msum_cons, IH. lia.
Qed.

Lemma msum_perm {A} (h : A -> N) a b : Permutation a b -> msum h a = msum h b.
Proof.
  induction 1; rewrite ?msum_cons; try lia.
Qed.

Lemma msum_ext {A} (h g : A -> N) l : (forall x, In x l -> h x = g x) -> msum h l = msum g l.
Proof.
  induction l as [|x l IH]; intro H; [reflexivity|].
  rewrite !msum_cons, (H x (or_introl eq_refl)), IH; [reflexivity|]. intros y Hy. apply H. now right.
Qed.

Lemma msum_filter {A} (h : A -> N) (F : A -> bool) l :
  msum h (filter F l) = msum (fun p => if F p then h p else 0) l.
Proof.
  induction l as [|x l IH]; [reflexivity|].
  cbn [filter]. rewrite msum_cons. destruct (F x); rewrite ?msum_cons, IH; lia.
Qed.

Lemma msum_plus {A} (h g : A -> N) l : msum (fun p => h p + g p) l = msum h l + msum g l.
Proof.
  induction l as [|x l IH]; [reflexivity|]. rewrite !msum_cons, IH. lia.
Qed.

Lemma msum_indicator {A} (F : A -> bool) l :
  msum (fun p => if F p then 1 else 0) l = N.of_nat (List.length (filter F l)).
Proof.
  induction l as [|x l IH]; [reflexivity|].
  rewrite msum_cons, IH. cbn [filter]. destruct (F x); cbn [List.length]; lia.
Qed.

(* ---- multiplicities ---- *)
Lemma mult_cons k x l : mult k (x :: l) = (if k =? x then 1 else 0) + mult k l.
Proof. unfold mult. cbn [filter]. destruct (k =? x); cbn [List.length]; lia. Qed.

Lemma mult_app k a b : mult k (a ++ b) = mult k a + mult k b.
Proof. unfold mult. rewrite filter_app, app_length. lia. Qed.

Definition psecs (p : mparam) : list N := map skind_code (param_slots p).
Definition esecs (e : event) : list N := map skind_code (event_slots e).

Lemma mult_flat_events k evs :
  mult k (map skind_code (flat_map event_slots evs)) = msum (fun e => mult k (esecs e)) evs.
Proof.
  induction evs as [|e evs IH]; [reflexivity|].
  cbn [flat_map]. rewrite msum_cons, map_app, mult_app, IH. reflexivity.
Qed.

Lemma msum_map_EParam k l : msum (fun e => mult k (esecs e)) (map EParam l) = msum (fun p => mult k (psecs p)) l.
Proof. induction l as [|p l IH]; [reflexivity|]. cbn [map]. rewrite !msum_cons, IH. reflexivity. Qed.

(* ---- permutations ---- *)
Lemma insert_first_perm pred (x : event) l : Permutation (insert_first pred x l) (x :: l).
Proof.
  induction l as [|y r IH]; cbn [insert_first]; [apply Permutation_refl|].
  destruct (pred y); [apply Permutation_refl|].
  eapply Permutation_trans; [apply perm_skip; exact IH | apply perm_swap].
Qed.

Lemma ins_perm x l : Permutation (ins x l) (x :: l).
Proof.
  induction l as [|y r IH]; cbn [ins]; [apply Permutation_refl|].
  destruct (param_lt y x); [|apply Permutation_refl].
  eapply Permutation_trans; [apply perm_skip; exact IH | apply perm_swap].
Qed.

Lemma sort_params_perm ps : Permutation (sort_params ps) ps.
Proof.
  induction ps as [|x r IH]; cbn [sort_params]; [apply Permutation_refl|].
  eapply Permutation_trans; [apply ins_perm | apply perm_skip; exact IH].
Qed.

(* the events of a plan, as a multiset *)
Definition keep (ps : list mparam) (p : mparam) : bool := F1 ps p && F2 ps p.

Lemma with_bundling_perm ps :
  Permutation (with_bundling ps)
    ((if bo_of ps then [EBundle true (pout_of ps)] else []) ++
     (if bi_of ps then [EBundle false (pin_of ps)] else []) ++
     map EParam (filter (F2 ps) (filter (F1 ps) (sort_params ps)))).
Proof.
  unfold with_bundling.
  change (filter (fun x => negb ((1 <? N.of_nat (List.length (packed true ps))) && mp_out x && bundleable x))
           (filter (fun x => negb ((1 <? N.of_nat (List.length (packed false ps))) && negb (mp_out x) && bundleable x)) (sort_params ps)))
    with (filter (F2 ps) (filter (F1 ps) (sort_params ps))).
  change (1 <? N.of_nat (List.length (packed false ps))) with (bi_of ps).
  change (1 <? N.of_nat (List.length (packed true ps))) with (bo_of ps).
  change (packed false ps) with (pin_of ps). change (packed true ps) with (pout_of ps).
  destruct (bo_of ps); cbn [app]; [apply insert_first_perm | apply Permutation_refl].
Qed.

Theorem mult_plan k ps :
  mult k (plan_secs ps) =
  (if bo_of ps then mult k [1] else 0) + (if bi_of ps then mult k [0] else 0) +
  msum (fun p => if keep ps p then mult k (psecs p) else 0) ps.
Proof.
  unfold plan_secs, plan_slots. rewrite mult_flat_events.
  rewrite (msum_perm _ _ _ (with_bundling_perm ps)).
  rewrite !msum_app, msum_map_EParam.
  rewrite msum_filter, msum_filter.
  rewrite (msum_perm _ _ _ (sort_params_perm ps)).
  assert (E : msum (fun p => if F1 ps p then if F2 ps p then mult k (psecs p) else 0 else 0) ps =
              msum (fun p => if keep ps p then mult k (psecs p) else 0) ps).
  { apply msum_ext. intros x _. unfold keep. destruct (F1 ps x), (F2 ps x); reflexivity. }
  rewrite E.
  destruct (bo_of ps), (bi_of ps); rewrite ?msum_cons, ?msum_nil; cbn [esecs event_slots map skind_code]; lia.
Qed.

(* ---- what the Counter adds per parameter ---- *)
Definition buf_inc (p : mparam) : N := if negb (p_iface p) && negb (bundleable p) then 1 else 0.
Definition obj_inc (p : mparam) : N :=
  match mp_ty p, mp_shape p with
  | MIface _, PVal => 1
  | MIface _, PArr (Some k) => k
  | MStruct _ _, PVal => if is_small (mp_ty p) then 0 else n_objs (mp_ty p)
  | _, _ => 0
  end.
Definition dirn (out : bool) (p : mparam) (v : N) : N := if Bool.eqb (mp_out p) out then v else 0.

Lemma u8_add_ok a b v : u8_add Debug a b = Ok v -> v = a + b.
Proof. unfold u8_add. destruct counter_checked; [intro H; now inversion H|]. destruct (a + b <? 256); intro H; inversion H. reflexivity. Qed.
Lemma u8_try_ok x v : u8_try x = Ok v -> v = x.
Proof. unfold u8_try. destruct counter_checked; [intro H; now inversion H|]. destruct (x <? 256); intro H; inversion H. reflexivity. Qed.

Ltac u8 :=
  repeat match goal with
         | H : (do _ <- ?e; _) = Ok _ |- _ =>
             let E := fresh "E" in destruct e eqn:E; cbn [obind] in H; try discriminate
         | H : u8_add Debug _ _ = Ok _ |- _ => apply u8_add_ok in H; subst
         | H : u8_try _ = Ok _ |- _ => apply u8_try_ok in H; subst
         | H : Ok _ = Ok _ |- _ => inversion H; subst; clear H
         end.

Lemma count_param_spec s p s' :
  count_param Debug s p = Ok s' ->
  nbi (cs s') = nbi (cs s) + dirn false p (buf_inc p) /\
  nbo (cs s') = nbo (cs s) + dirn true p (buf_inc p) /\
  noi (cs s') = noi (cs s) + dirn false p (obj_inc p) /\
  noo (cs s') = noo (cs s) + dirn true p (obj_inc p) /\
  hb_in s' = (hb_in s || (negb (mp_out p) && bundleable p)) /\
  hb_out s' = (hb_out s || (mp_out p && bundleable p)).
Proof.
  destruct s as [[bi bo oi oo] hi ho]. destruct p as [o t sh nm].
  unfold count_param, dirn, buf_inc, obj_inc, bundleable, is_prim_value, is_small_struct_value, is_val, is_array, p_iface.
  cbn [mp_out mp_ty mp_shape cs nbi nbo noi noo hb_in hb_out].
  destruct sh as [|cnt]; destruct t as [|q|n|sn fs]; destruct o;
    cbn [is_miface is_mstruct is_prim negb andb orb Bool.eqb];
    try destruct cnt as [k|]; try destruct (is_small (MStruct sn fs));
    intro H; try discriminate; u8;
    cbn [cs nbi nbo noi noo hb_in hb_out]; rewrite ?Bool.orb_false_r, ?Bool.orb_true_r;
    repeat split; try reflexivity; try lia; cbn [negb]; lia.
Qed.

Definition ex_small (out : bool) (ps : list mparam) : bool :=
  existsb (fun p => Bool.eqb (mp_out p) out && bundleable p) ps.

Lemma count_params_spec ps : forall s s',
  count_params Debug s ps = Ok s' ->
  nbi (cs s') = nbi (cs s) + msum (fun p => dirn false p (buf_inc p)) ps /\
  nbo (cs s') = nbo (cs s) + msum (fun p => dirn true p (buf_inc p)) ps /\
  noi (cs s') = noi (cs s) + msum (fun p => dirn false p (obj_inc p)) ps /\
  noo (cs s') = noo (cs s) + msum (fun p => dirn true p (obj_inc p)) ps /\
  hb_in s' = (hb_in s || ex_small false ps) /\
  hb_out s' = (hb_out s || ex_small true ps).
Proof.
  induction ps as [|p ps IH]; intros s s' H; cbn [count_params] in H.
  - inversion H; subst. rewrite !msum_nil. unfold ex_small. cbn [existsb]. rewrite !Bool.orb_false_r.
    repeat split; lia.
  - destruct (count_param Debug s p) as [s1| | |] eqn:E; cbn [obind] in H; try discriminate.
    apply count_param_spec in E. destruct E as (E1 & E2 & E3 & E4 & E5 & E6).
    apply IH in H. destruct H as (H1 & H2 & H3 & H4 & H5 & H6).
    rewrite !msum_cons. unfold ex_small in *. cbn [existsb].
    rewrite H1, H2, H3, H4, H5, H6, E1, E2, E3, E4, E5, E6.
    assert (B1 : (negb (mp_out p) && bundleable p) = (Bool.eqb (mp_out p) false && bundleable p)) by (destruct (mp_out p); reflexivity).
    assert (B2 : (mp_out p && bundleable p) = (Bool.eqb (mp_out p) true && bundleable p)) by (destruct (mp_out p); reflexivity).
    rewrite B1, B2, !Bool.orb_assoc. repeat split; lia.
Qed.

(* the counts word, in closed form *)
Theorem counter_closed ps c :
  counter Debug ps = Ok c ->
  nbi c = msum (fun p => dirn false p (buf_inc p)) ps + (if ex_small false ps then 1 else 0) /\
  nbo c = msum (fun p => dirn true p (buf_inc p)) ps + (if ex_small true ps then 1 else 0) /\
  noi c = msum (fun p => dirn false p (obj_inc p)) ps /\
  noo c = msum (fun p => dirn true p (obj_inc p)) ps.
Proof.
  unfold counter. intro H.
  destruct (count_params Debug _ ps) as [s| | |] eqn:E; cbn [obind] in H; try discriminate.
  apply count_params_spec in E. cbn [cs nbi nbo noi noo hb_in hb_out orb] in E.
  destruct E as (E1 & E2 & E3 & E4 & E5 & E6).
  u8.
  match goal with H : (if ?c then _ else _) = Ok _ |- _ => destruct c; [inversion H; subst; clear H | discriminate] end.
  cbn [nbi nbo noi noo]. rewrite E1, E2, E3, E4, E5, E6. repeat split; lia.
Qed.

(* with the repaired Counter an accepted parameter list has at most 15 slots of every class *)
Theorem counter_within_limit ps c :
  counter_checked = true -> counter Debug ps = Ok c ->
  nbi c <= counter_limit /\ nbo c <= counter_limit /\ noi c <= counter_limit /\ noo c <= counter_limit.
Proof.
  intros Hk. unfold counter. intro H.
  destruct (count_params Debug _ ps) as [s| | |]; cbn [obind] in H; try discriminate.
  destruct (u8_add Debug (nbi (cs s)) _) as [bi| | |]; cbn [obind] in H; try discriminate.
  destruct (u8_add Debug (nbo (cs s)) _) as [bo| | |]; cbn [obind] in H; try discriminate.
  unfold within_limit in H. rewrite Hk in H. cbn [negb orb] in H.
  destruct (bi <=? counter_limit) eqn:A; [|discriminate].
  destruct (bo <=? counter_limit) eqn:B; [|discriminate].
  destruct (noi (cs s) <=? counter_limit) eqn:C; [|discriminate].
  destruct (noo (cs s) <=? counter_limit) eqn:D; [|discriminate].
  cbn [andb] in H. inversion H; subst. cbn [nbi nbo noi noo].
  apply N.leb_le in A, B, C, D. repeat split; assumption.
Qed.

(* ---- multiplicities of one parameter's slots ---- *)
Definition obj_all (p : mparam) : N :=
  match mp_ty p, mp_shape p with
  | MIface _, PVal => 1
  | MIface _, PArr (Some k) => k
  | MStruct _ _, PVal => n_objs (mp_ty p)
  | _, _ => 0
  end.

Lemma mult_repeat k o n : mult k (map skind_code (repeat_k o n)) = if k =? skind_code o then n else 0.
Proof.
  unfold repeat_k. rewrite <- (N2Nat.id n) at 2. induction (N.to_nat n) as [|m IH]; cbn [repeat map].
  - destruct (k =? skind_code o); reflexivity.
  - rewrite mult_cons, IH. destruct (k =? skind_code o); lia.
Qed.

Lemma mult_psecs p :
  mult 0 (psecs p) = dirn false p (if p_iface p then 0 else 1) /\
  mult 1 (psecs p) = dirn true p (if p_iface p then 0 else 1) /\
  mult 2 (psecs p) = dirn false p (obj_all p) /\
  mult 3 (psecs p) = dirn true p (obj_all p).
Proof.
  destruct p as [o t sh nm]. unfold psecs, param_slots, dirn, obj_all, p_iface.
  cbn [mp_out mp_ty mp_shape].
  destruct sh as [|cnt]; destruct t as [|q|n|sn fs]; destruct o; cbn [is_miface Bool.eqb map];
    try destruct cnt as [c|];
    rewrite ?mult_cons, ?mult_repeat; cbn [skind_code]; unfold mult; cbn [filter List.length map];
    repeat split; try reflexivity; try lia.
Qed.

(* ---- the theorem ---- *)
Definition small_structs_carry_no_objects (ps : list mparam) : Prop :=
  forall p, In p ps -> is_small_struct_value p = true -> n_objs (mp_ty p) = 0.

Lemma ex_small_count out ps :
  ex_small out ps = (0 <? N.of_nat (List.length (filter (fun p => Bool.eqb (mp_out p) out && bundleable p) ps))).
Proof.
  unfold ex_small. induction ps as [|p ps IH]; [reflexivity|].
  cbn [existsb filter]. destruct (Bool.eqb (mp_out p) out && bundleable p); cbn [orb List.length]; [|exact IH].
  symmetry. apply N.ltb_lt. lia.
Qed.

Lemma packed_count out ps :
  N.of_nat (List.length (packed out ps)) =
  N.of_nat (List.length (filter (fun p => Bool.eqb (mp_out p) out && bundleable p) ps)).
Proof. f_equal. apply Permutation_length. apply packed_members. Qed.

Lemma small_count_msum out ps :
  N.of_nat (List.length (filter (fun p => Bool.eqb (mp_out p) out && bundleable p) ps)) =
  msum (fun p => dirn out p (if bundleable p then 1 else 0)) ps.
Proof.
  rewrite <- msum_indicator. apply msum_ext. intros p _. unfold dirn.
  destruct (Bool.eqb (mp_out p) out), (bundleable p); reflexivity.
Qed.

Lemma keep_in ps p : mp_out p = false -> keep ps p = negb (bi_of ps && bundleable p).
Proof. intro H. unfold keep, F1, F2. rewrite H. destruct (bi_of ps), (bo_of ps), (bundleable p); reflexivity. Qed.
Lemma keep_out ps p : mp_out p = true -> keep ps p = negb (bo_of ps && bundleable p).
Proof. intro H. unfold keep, F1, F2. rewrite H. destruct (bi_of ps), (bo_of ps), (bundleable p); reflexivity. Qed.

Lemma bundleable_not_iface p : bundleable p = true -> p_iface p = false.
Proof. apply bundleable_rank. Qed.

(* buffers of one direction *)
Lemma buffers_side (out : bool) ps (b : bool) :
  b = (if out then bo_of ps else bi_of ps) ->
  (forall p, Bool.eqb (mp_out p) out = true -> keep ps p = negb (b && bundleable p)) ->
  (if b then 1 else 0) +
  msum (fun p => if keep ps p then dirn out p (if p_iface p then 0 else 1) else 0) ps =
  msum (fun p => dirn out p (buf_inc p)) ps + (if ex_small out ps then 1 else 0).
Proof.
  intros Hb Hk.
  assert (E : msum (fun p => if keep ps p then dirn out p (if p_iface p then 0 else 1) else 0) ps =
              msum (fun p => dirn out p (buf_inc p) + (if b then 0 else dirn out p (if bundleable p then 1 else 0))) ps).
  { apply msum_ext. intros p _. unfold dirn, buf_inc.
    destruct (Bool.eqb (mp_out p) out) eqn:Ed; [|destruct (keep ps p), b; reflexivity].
    rewrite (Hk p Ed).
    destruct (bundleable p) eqn:Eb.
    - rewrite (bundleable_not_iface p Eb). destruct b; reflexivity.
    - rewrite Bool.andb_false_r. cbn [negb andb]. destruct (p_iface p), b; reflexivity. }
  rewrite E, msum_plus.
  assert (S : msum (fun p => if b then 0 else dirn out p (if bundleable p then 1 else 0)) ps =
              if b then 0 else msum (fun p => dirn out p (if bundleable p then 1 else 0)) ps).
  { destruct b; [|reflexivity]. clear. induction ps as [|x l IH]; [reflexivity|]. rewrite msum_cons, IH. reflexivity. }
  rewrite S, <- small_count_msum, ex_small_count.
  set (n := N.of_nat (List.length (filter (fun p => Bool.eqb (mp_out p) out && bundleable p) ps))).
  assert (Hn : b = (1 <? n)).
  { rewrite Hb. unfold n. rewrite <- packed_count. destruct out; reflexivity. }
  rewrite Hn. destruct (1 <? n) eqn:E1.
  - apply N.ltb_lt in E1. assert (0 <? n = true) by (apply N.ltb_lt; lia). rewrite H. lia.
  - apply N.ltb_ge in E1. destruct (0 <? n) eqn:E0; [apply N.ltb_lt in E0 | apply N.ltb_ge in E0]; lia.
Qed.

(* objects of one direction *)
Lemma objects_side (out : bool) ps :
  small_structs_carry_no_objects ps ->
  msum (fun p => if keep ps p then dirn out p (obj_all p) else 0) ps = msum (fun p => dirn out p (obj_inc p)) ps.
Proof.
  intro H. apply msum_ext. intros p Hp.
  assert (A : dirn out p (obj_all p) = dirn out p (obj_inc p)).
  { unfold dirn, obj_all, obj_inc. destruct (Bool.eqb (mp_out p) out); [|reflexivity].
    destruct (mp_ty p) as [|q|n|sn fs] eqn:Et; try reflexivity.
    destruct (mp_shape p) as [|cnt] eqn:Es; [|reflexivity].
    destruct (is_small (MStruct sn fs)) eqn:Esm; [|reflexivity].
    rewrite <- Et. apply (H p Hp). unfold is_small_struct_value, is_val, is_array. rewrite Es, Et. cbn [negb is_mstruct andb]. exact Esm. }
  destruct (keep ps p) eqn:Ek; [exact A|].
  (* dropped from the discrete slots: a bundled small value, which carries no object slot *)
  assert (B : bundleable p = true).
  { unfold keep, F1, F2 in Ek. destruct (bundleable p); [reflexivity|].
    rewrite !Bool.andb_false_r in Ek. discriminate. }
  rewrite <- A. unfold dirn, obj_all. destruct (Bool.eqb (mp_out p) out); [|reflexivity].
  unfold bundleable, is_prim_value, is_small_struct_value, is_val, is_array in B.
  destruct (mp_ty p) as [|q|n|sn fs] eqn:Et; destruct (mp_shape p) as [|cnt] eqn:Es;
    cbn [negb is_prim is_mstruct andb orb] in B; try discriminate; try reflexivity.
  symmetry. rewrite <- Et. apply (H p Hp). unfold is_small_struct_value, is_val, is_array. rewrite Es, Et. cbn [negb is_mstruct andb]. exact B.
Qed.

Lemma mult_single k c : mult k [c] = if k =? c then 1 else 0.
Proof. rewrite mult_cons. unfold mult. cbn. lia. Qed.

(* the counts word equals the section multiplicities of the slot sequence *)
Theorem counts_are_multiplicities ps c :
  small_structs_carry_no_objects ps ->
  counter Debug ps = Ok c ->
  nbi c = mult 0 (plan_secs ps) /\ nbo c = mult 1 (plan_secs ps) /\
  noi c = mult 2 (plan_secs ps) /\ noo c = mult 3 (plan_secs ps).
Proof.
  intros H Hc. apply counter_closed in Hc. destruct Hc as (C0 & C1 & C2 & C3).
  rewrite !mult_plan, !mult_single.
  assert (P : forall p, mult 0 (psecs p) = dirn false p (if p_iface p then 0 else 1) /\
                        mult 1 (psecs p) = dirn true p (if p_iface p then 0 else 1) /\
                        mult 2 (psecs p) = dirn false p (obj_all p) /\
                        mult 3 (psecs p) = dirn true p (obj_all p)) by (intro p; apply mult_psecs).
  assert (R : forall (k : N) (g : mparam -> N), (forall p, mult k (psecs p) = g p) ->
              msum (fun p => if keep ps p then mult k (psecs p) else 0) ps = msum (fun p => if keep ps p then g p else 0) ps).
  { intros k g Hg. apply msum_ext. intros p _. now rewrite Hg. }
  rewrite (R 0 _ (fun p => proj1 (P p))).
  rewrite (R 1 _ (fun p => proj1 (proj2 (P p)))).
  rewrite (R 2 _ (fun p => proj1 (proj2 (proj2 (P p))))).
  rewrite (R 3 _ (fun p => proj2 (proj2 (proj2 (P p))))).
  pose proof (buffers_side false ps (bi_of ps) eq_refl) as B0.
  pose proof (buffers_side true ps (bo_of ps) eq_refl) as B1.
  assert (K0 : forall p, Bool.eqb (mp_out p) false = true -> keep ps p = negb (bi_of ps && bundleable p)).
  { intros p Hp. apply keep_in. destruct (mp_out p); [discriminate | reflexivity]. }
  assert (K1 : forall p, Bool.eqb (mp_out p) true = true -> keep ps p = negb (bo_of ps && bundleable p)).
  { intros p Hp. apply keep_out. destruct (mp_out p); [reflexivity | discriminate]. }
  specialize (B0 K0). specialize (B1 K1).
  rewrite (objects_side false ps H), (objects_side true ps H).
  change (0 =? 1) with false. change (0 =? 0) with true. change (1 =? 1) with true. change (1 =? 0) with false.
  change (2 =? 1) with false. change (2 =? 0) with false. change (3 =? 1) with false. change (3 =? 0) with false.
  repeat split.
  - rewrite C0. destruct (bo_of ps); lia.
  - rewrite C1. destruct (bi_of ps); lia.
  - rewrite C2. destruct (bo_of ps), (bi_of ps); lia.
  - rewrite C3. destruct (bo_of ps), (bi_of ps); lia.
Qed.

(* ---- the whole envelope ---- *)
Lemma no_objstruct_small ps : has_objstruct_value ps = false -> small_structs_carry_no_objects ps.
Proof.
  intros H p Hp Hs. unfold has_objstruct_value in H.
  assert (E : objstruct_value p = false).
  { destruct (objstruct_value p) eqn:E; [|reflexivity].
    assert (existsb objstruct_value ps = true) by (apply existsb_exists; exists p; tauto). congruence. }
  unfold objstruct_value in E. unfold is_small_struct_value in Hs.
  apply andb_prop in Hs. destruct Hs as [Hs _]. rewrite Hs in E. cbn [andb] in E.
  apply Bool.negb_false_iff in E. now apply N.eqb_eq in E.
Qed.

Lemma plan_secs_le3 ps : forallb (fun k => k <=? 3) (plan_secs ps) = true.
Proof.
  unfold plan_secs. apply forallb_forall. intros k Hk. apply in_map_iff in Hk.
  destruct Hk as [s [<- _]]. destruct s; reflexivity.
Qed.

Theorem envelope_is_canonical ps c :
  has_objstruct_value ps = false -> objarr_after_out ps = false ->
  counter Debug ps = Ok c ->
  nbi c <= 15 -> nbo c <= 15 -> noi c <= 15 -> noo c <= 15 ->
  envelope_canonical (nbi c, nbo c, noi c, noo c) (plan_secs ps) = true.
Proof.
  intros H1 H2 Hc L0 L1 L2 L3.
  destruct (counts_are_multiplicities ps c (no_objstruct_small ps H1) Hc) as (M0 & M1 & M2 & M3).
  unfold envelope_canonical. rewrite (plan_sections_sorted ps H1 H2), plan_secs_le3.
  rewrite <- M0, <- M1, <- M2, <- M3, !N.eqb_refl. unfold count_limit.
  repeat (rewrite (proj2 (N.leb_le _ _)) by assumption). reflexivity.
Qed.
