(* Consts.v — constants: the range check of ast.rs:256-312 (Primitive::new), the mathematical
   value of an IDL literal, and how each target language reads the literal text the backends
   paste into their output (C/C++: <T>_C(lit); Rust: `pub const X: ty = lit;`; Java: `ty X = lit;`).
   Definitions only. *)
Require Import Base Syntax.
Require Import gen.ConstFacts.
Open Scope string_scope.

Definition is_digit (c : ascii) : bool :=
  let n := nat_of_ascii c in (Nat.leb 48 n && Nat.leb n 57)%bool.

Definition digit_val (c : ascii) : option N :=
  let n := N.of_nat (nat_of_ascii c) in
  if ((48 <=? n) && (n <=? 57))%N then Some (n - 48)%N
  else if ((97 <=? n) && (n <=? 102))%N then Some (n - 87)%N
  else if ((65 <=? n) && (n <=? 70))%N then Some (n - 55)%N
  else None.

(* digits in a radix; None on an invalid digit or the empty string *)
Fixpoint digits_val (radix : N) (s : string) (acc : N) : option N :=
  match s with
  | EmptyString => Some acc
  | String c r =>
      match digit_val c with
      | Some d => if (d <? radix)%N then digits_val radix r (acc * radix + d)%N else None
      | None => None
      end
  end.
Definition digits (radix : N) (s : string) : option N :=
  match s with EmptyString => None | _ => digits_val radix s 0%N end.

Definition starts_with (p s : string) : bool := String.eqb p (substring 0 (String.length p) s).

(* str::replace("0x", "") — every occurrence, left to right *)
Fixpoint remove_0x (s : string) : string :=
  match s with
  | String "0" (String "x" r) => remove_0x r
  | String c r => String c (remove_0x r)
  | EmptyString => EmptyString
  end.

Definition int_bits (p : prim) : option (bool * N) :=      (* signed?, bits *)
  match p with
  | U8 => Some (false, 8) | U16 => Some (false, 16) | U32 => Some (false, 32) | U64 => Some (false, 64)
  | I8 => Some (true, 8) | I16 => Some (true, 16) | I32 => Some (true, 32) | I64 => Some (true, 64)
  | F32 | F64 => None
  end%N.

(* <int>::from_str_radix: optional '+'; '-' only for signed types; checked against the width *)
Definition from_str_radix (signed : bool) (bits : N) (s : string) (radix : N) : option Z :=
  match s with
  | String "+" r => match digits radix r with
                    | Some v => if (v <? 2 ^ (if signed then bits - 1 else bits))%N then Some (Z.of_N v) else None
                    | None => None end
  | String "-" r =>
      if signed then
        match digits radix r with
        | Some v => if (v <=? 2 ^ (bits - 1))%N then Some (- Z.of_N v)%Z else None
        | None => None end
      else None
  | _ => match digits radix s with
         | Some v => if (v <? 2 ^ (if signed then bits - 1 else bits))%N then Some (Z.of_N v) else None
         | None => None end
  end.

(* Primitive::new for the integer types: accept iff the parse succeeds *)
Definition range_check_int (p : prim) (raw : string) : option bool :=
  match int_bits p with
  | Some (sg, bits) =>
      let radix := if starts_with "0x" raw || starts_with "-0x" raw then 16%N else 10%N in
      Some (match from_str_radix sg bits (remove_0x raw) radix with Some _ => true | None => false end)
  | None => None
  end.

(* ---- the literal as the grammar reads it: value = "-"? "0x" HEX+ | "-"? DIGIT+ ("." DIGIT+)? ---- *)
Record literal := mkLit { l_neg : bool; l_hex : bool; l_int : string; l_frac : option string }.

Fixpoint split_dot (s : string) (acc : string) : string * option string :=
  match s with
  | EmptyString => (acc, None)
  | String "." r => (acc, Some r)
  | String c r => split_dot r (acc ++ String c EmptyString)
  end.

Fixpoint skip_str (n : nat) (s : string) : string :=
  match n, s with
  | O, _ => s
  | S k, String _ r => skip_str k r
  | S _, EmptyString => EmptyString
  end.

Definition parse_literal (s : string) : literal :=
  let neg := starts_with "-" s in
  let body := if neg then skip_str 1 s else s in
  if starts_with "0x" body then mkLit neg true (skip_str 2 body) None
  else let '(i, f) := split_dot body EmptyString in mkLit neg false i f.

(* mathematical value of an integer literal *)
Definition math_int (l : literal) : option Z :=
  match l_frac l with
  | Some _ => None
  | None => match digits (if l_hex l then 16 else 10)%N (l_int l) with
            | Some v => Some (if l_neg l then (- Z.of_N v)%Z else Z.of_N v)
            | None => None
            end
  end.

Definition in_range (p : prim) (v : Z) : bool :=
  match int_bits p with
  | Some (true, bits) => ((- 2 ^ (Z.of_N bits - 1) <=? v) && (v <=? 2 ^ (Z.of_N bits - 1) - 1))%Z
  | Some (false, bits) => ((0 <=? v) && (v <=? 2 ^ (Z.of_N bits) - 1))%Z
  | None => false
  end.

(* Spec (property text): an integer literal is accepted iff its value is in the range of the
   declared type and, for unsigned types, it carries no sign *)
Definition spec_accept_int (p : prim) (raw : string) : bool :=
  let l := parse_literal raw in
  match math_int l, int_bits p with
  | Some v, Some (sg, _) => in_range p v && (sg || negb (l_neg l))
  | _, _ => false
  end.

(* ---- how the target languages read the pasted literal text (integers) ---- *)
(* C, C++ and Java: a leading 0 followed by more digits is octal; digits 8/9 make it invalid *)
Definition leading_zero (l : literal) : bool :=
  negb (l_hex l) &&
  match l_int l with String "0" (String _ _) => true | _ => false end.

Definition eval_c_int (raw : string) : option Z :=
  let l := parse_literal raw in
  match l_frac l with
  | Some _ => None
  | None =>
      let radix := if l_hex l then 16%N else if leading_zero l then 8%N else 10%N in
      match digits radix (l_int l) with
      | Some v => Some (if l_neg l then (- Z.of_N v)%Z else Z.of_N v)
      | None => None
      end
  end.

(* Rust: decimal with any leading zeros, or 0x hex *)
Definition eval_rust_int (raw : string) : option Z := math_int (parse_literal raw).

(* ---- floating-point constants (decimal literals only; hex literals are outside the model:
        ast.rs strips "0x" and parses the rest as a decimal float) ---- *)
Definition f32_limit : N := (2 ^ 128 - 2 ^ 103)%N.     (* values at or above round to infinity *)
Definition f64_limit : N := (2 ^ 1024 - 2 ^ 970)%N.

(* split "D1eD2" / "D1ED2" *)
Fixpoint split_exp (s : string) (acc : string) : string * option string :=
  match s with
  | EmptyString => (acc, None)
  | String c r => if (Ascii.eqb c "e" || Ascii.eqb c "E")%bool then (acc, Some r)
                  else split_exp r (acc ++ String c EmptyString)
  end.

(* str::parse::<f32/f64>() of a sign-less mantissa: DIGITS, DIGITS.DIGITS, or DIGITS e DIGITS
   (the latter arises only from hexadecimal literals such as 0x1e5 once "0x" is stripped);
   Some true = finite, Some false = infinite, None = parse error *)
Definition float_parse (limit : N) (body : string) : option bool :=
  let '(m, e) := split_exp body EmptyString in
  match e with
  | None =>
      let '(i, f) := split_dot m EmptyString in
      match digits 10 i, f with
      | Some iv, None => Some (iv <? limit)%N
      | Some iv, Some fs => match digits 10 fs with Some _ => Some (iv <? limit)%N | None => None end
      | None, _ => None
      end
  | Some es =>
      match digits 10 m, digits 10 es with
      | Some mv, Some ev =>
          if (mv =? 0)%N then Some true
          else if (400 <? ev)%N then Some false
          else Some (mv * 10 ^ ev <? limit)%N
      | _, _ => None
      end
  end.

(* The pinned upstream check removed every "0x" before parsing, also for floats (0x10 was read
   as the decimal 10, 0x1e5 as 1e5); the repaired check (ConstFacts.float_parsed_as_written)
   parses the literal as written, so a hexadecimal one is a parse error. *)
Definition has_0x (raw : string) : bool := negb (String.eqb (remove_0x raw) raw).
Definition range_check_float (p : prim) (raw : string) : option bool :=
  if float_parsed_as_written && has_0x raw then
    match p with F32 | F64 => Some false | _ => None end
  else
  let s := remove_0x raw in
  let body := match s with String "-" r => r | String "+" r => r | _ => s end in
  match p with
  | F32 => Some (match float_parse f32_limit body with Some true => true | _ => false end)
  | F64 => Some (match float_parse f64_limit body with Some true => true | _ => false end)
  | _ => None
  end.

Definition range_check (p : prim) (raw : string) : option bool :=
  match int_bits p with Some _ => range_check_int p raw | None => range_check_float p raw end.
