(* Codec.v — the byte-level contract of data slots: little-endian images of fixed-width values,
   the packed bundle (members back to back, no padding), and the signed carriers the Java
   backend uses for unsigned IDL types.  Definitions only. *)
Require Import Base.
Open Scope N_scope.

(* n-byte little-endian image of v (low byte first) *)
Fixpoint put_le (n : nat) (v : N) : list N :=
  match n with
  | O => []
  | S n' => (v mod 256) :: put_le n' (v / 256)
  end.

(* read an n-byte little-endian value off the front of a byte list *)
Fixpoint get_le (n : nat) (bs : list N) : option (N * list N) :=
  match n with
  | O => Some (0, bs)
  | S n' =>
      match bs with
      | [] => None
      | b :: r =>
          match get_le n' r with
          | Some (v, rest) => Some (b + 256 * v, rest)
          | None => None
          end
      end
  end.

(* a bundle: members (width in bytes, value) back to back in the order given *)
Definition encode_bundle (ms : list (nat * N)) : list N :=
  flat_map (fun m => put_le (fst m) (snd m)) ms.

Fixpoint decode_bundle (widths : list nat) (bs : list N) : option (list N * list N) :=
  match widths with
  | [] => Some ([], bs)
  | w :: ws =>
      match get_le w bs with
      | Some (v, rest) =>
          match decode_bundle ws rest with
          | Some (vs, rest') => Some (v :: vs, rest')
          | None => None
          end
      | None => None
      end
  end.

(* Java carries an unsigned w-bit value in the signed type of the same width (byte, int, long):
   the carrier holds the two's-complement reading; put/get of the carrier use its bit pattern *)
Definition to_carrier (bits : N) (v : N) : Z :=
  if v <? 2 ^ (bits - 1) then Z.of_N v else (Z.of_N v - Z.of_N (2 ^ bits))%Z.
Definition of_carrier (bits : N) (c : Z) : N :=
  Z.to_N (c mod Z.of_N (2 ^ bits))%Z.
