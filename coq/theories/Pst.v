(* Pst.v — pest pair trees and the transcription of idlc_ast/src/pst.rs:78-370 (PST -> AST).
   `ast_unwrap!` is unwrap() in debug builds and unwrap_unchecked() in release builds: the
   model returns [Reject] resp. [UB site] when it meets None/Err.  Plain unwrap(), expect(),
   unreachable!() and unrecoverable!() panic in both modes.  debug_assert! panics in Debug
   only.  Definitions only. *)
Require Import Base Syntax Consts.
Require Import gen.PstFacts.
Open Scope string_scope.
Open Scope list_scope.

(* a pest Pair: rule name, matched text, inner pairs *)
Inductive tree := T (rule : string) (text : string) (children : list tree).

Definition t_rule (t : tree) : string := match t with T r _ _ => r end.
Definition t_text (t : tree) : string := match t with T _ s _ => s end.
Definition t_kids (t : tree) : list tree := match t with T _ _ k => k end.
Definition is_rule (r : string) (t : tree) : bool := String.eqb (t_rule t) r.

(* ast_unwrap!(e) *)
Definition ast_unwrap {A} (md : mode) (site : N) (o : option A) : outcome A :=
  match o with
  | Some a => Ok a
  | None => match md with Debug => Reject RParse | Release => UB site end
  end.
(* unwrap() / unreachable!() *)
Definition must {A} (c : rclass) (o : option A) : outcome A :=
  match o with Some a => Ok a | None => Reject c end.

Definition prim_of_string (s : string) : option prim :=
  if String.eqb s "uint8" then Some U8 else if String.eqb s "uint16" then Some U16
  else if String.eqb s "uint32" then Some U32 else if String.eqb s "uint64" then Some U64
  else if String.eqb s "int8" then Some I8 else if String.eqb s "int16" then Some I16
  else if String.eqb s "int32" then Some I32 else if String.eqb s "int64" then Some I64
  else if String.eqb s "float32" then Some F32 else if String.eqb s "float64" then Some F64
  else None.

(* impl From<Pair> for Type *)
Definition type_of (t : tree) : aty :=
  match prim_of_string (t_text t) with
  | Some p => TPrim p
  | None => if String.eqb (t_text t) "interface" then TIface else TCustom (t_text t)
  end.

(* "<digits>".parse::<NonZeroU16>() *)
Definition parse_count (s : string) : option N :=
  match s with
  | String "+" r => match digits 10 r with Some v => if ((1 <=? v) && (v <=? 65535))%N then Some v else None | None => None end
  | _ => match digits 10 s with Some v => if ((1 <=? v) && (v <=? 65535))%N then Some v else None | None => None end
  end.

(* Pairs::as_str of the inner pairs: the text from the first to the last inner pair (with a
   comment inside the brackets that is the number followed by the comment: not a number) *)
Definition inner_str (t : tree) : string :=
  match t_kids t with
  | [] => ""
  | [k] => t_text k
  | k :: r => String.concat "" (t_text k :: map t_text r)   (* a COMMENT pair after the number: the span covers both *)
  end.

(* the array size: ast_unwrap!(...parse()) in the pinned upstream code (Debug panics, Release
   runs unwrap_unchecked on the Err); an ordinary error in both profiles after the repair
   (PstFacts.pst_array_size_checked) *)
Definition count_unwrap (checked : bool) (md : mode) (site : N) (o : option N) : outcome N :=
  if checked then must RParse o else ast_unwrap md site o.

(* ParamTypeIn / ParamTypeOut ::from *)
Definition param_type_of (md : mode) (t : tree) : outcome (aty * pshape) :=
  do _ <- (match md with
           | Debug => if is_rule "param_type" t then Ok tt else Reject RParse   (* debug_assert_eq! *)
           | Release => Ok tt end);
  do first <- ast_unwrap md 1 (hd_error (t_kids t));
  let ty := type_of first in
  match ty with
  | TCustom "buffer" => Ok (TBuffer, PVal)
  | _ =>
      match tl (t_kids t) with
      | [] => Ok (ty, PVal)
      | p :: _ =>
          if is_rule "unbounded_array" p then Ok (ty, PArr None)
          else if is_rule "bounded_array" p then
            do n <- count_unwrap pst_array_size_checked md 2 (parse_count (inner_str p)); Ok (ty, PArr (Some n))
          else Reject ROther                                          (* unreachable!() *)
      end
  end.

(* impl From<Pair> for Param *)
Definition param_of (md : mode) (t : tree) : outcome param :=
  do m <- ast_unwrap md 3 (nth_error (t_kids t) 0);
  do ty <- ast_unwrap md 4 (nth_error (t_kids t) 1);
  do id <- ast_unwrap md 5 (nth_error (t_kids t) 2);
  if String.eqb (t_text m) "in" then
    do ts <- param_type_of md ty; Ok (mkP false (fst ts) (snd ts) (t_text id))
  else if String.eqb (t_text m) "out" then
    do ts <- param_type_of md ty; Ok (mkP true (fst ts) (snd ts) (t_text id))
  else Reject ROther.

Fixpoint params_of (md : mode) (ts : list tree) : outcome (list param) :=
  match ts with
  | [] => Ok []
  | t :: r =>
      if is_rule "param" t then
        do p <- param_of md t; do ps <- params_of md r; Ok (p :: ps)
      else params_of md r
  end.

(* attributes of function_keyword: stop at the first non-attribute; duplicates are fatal *)
Fixpoint attrs_of (md : mode) (ts : list tree) (seen_optional : bool) : outcome bool :=
  match ts with
  | [] => Ok seen_optional
  | a :: r =>
      if negb (is_rule "attribute" a) then Ok seen_optional else
      do sup <- ast_unwrap md 6 (hd_error (t_kids a));
      if String.eqb (t_text sup) "optional" then
        if seen_optional then Reject RAttrDup else attrs_of md r true
      else Reject ROther
  end.

(* parse_const (pst.rs:289-308); allow_ub skips the range check *)
Definition const_of (md : mode) (allow_ub : bool) (t : tree) : outcome cdef :=
  let ks := tl (t_kids t) in                                           (* skip(1) *)
  do ty <- ast_unwrap md 7 (nth_error ks 0);
  do id <- ast_unwrap md 8 (nth_error ks 1);
  do v <- ast_unwrap md 9 (nth_error ks 2);
  if allow_ub then
    do p <- must ROther (prim_of_string (t_text ty)); Ok (mkC (t_text id) p (t_text v))
  else
    match prim_of_string (t_text ty) with
    | None => Reject RConstRange
    | Some p => match range_check p (t_text v) with
                | Some true => Ok (mkC (t_text id) p (t_text v))
                | Some false => Reject RConstRange
                | None => Reject ROther
                end
    end.

(* InterfaceNode::new *)
Definition member_of (md : mode) (allow_ub : bool) (doc : option string) (t : tree) : outcome inode :=
  if is_rule "error" t then
    do id <- must ROther (nth_error (t_kids t) 1); Ok (IError (t_text id))
  else if is_rule "const" t then
    do c <- const_of md allow_ub t; Ok (IConst c)
  else if is_rule "function" t then
    do kw <- ast_unwrap md 10 (nth_error (t_kids t) 0);
    do opt <- attrs_of md (t_kids kw) false;
    do id <- ast_unwrap md 11 (nth_error (t_kids t) 1);
    do ps <- params_of md (tl (tl (t_kids t)));
    Ok (IFunc (mkFn (t_text id) ps opt doc))
  else Reject ROther.

(* Documentation::try_from(COMMENT pair).ok(): only a DOCUMENTATION child yields text:
   raw = text.trim(); window = raw[2 .. len-1] *)
Definition doc_of (t : tree) : option string :=
  match t_kids t with
  | d :: _ => if is_rule "DOCUMENTATION" d
              then Some (substring 2 (String.length (t_text d) - 3) (t_text d))
              else None
  | [] => None
  end.

(* what a COMMENT pair does to the pending documentation.  The pinned upstream code overwrote
   it with Documentation::try_from(rule).ok() (an ordinary comment discards it); the repaired code
   (PstFacts.pst_comment_keeps_doc) replaces it only by a newer documentation block. *)
Definition next_pending (keep : bool) (pending : option string) (c : tree) : option string :=
  match doc_of c with
  | Some d => Some d
  | None => if keep then pending else None
  end.

Fixpoint members_of_gen (keep : bool) (md : mode) (allow_ub : bool) (ts : list tree) (pending : option string)
  : outcome (list inode) :=
  match ts with
  | [] => Ok []
  | t :: r =>
      if is_rule "COMMENT" t then members_of_gen keep md allow_ub r (next_pending keep pending t)
      else if is_rule "const" t || is_rule "function" t || is_rule "error" t then
        do m <- member_of md allow_ub pending t;
        do ms <- members_of_gen keep md allow_ub r None;
        Ok (m :: ms)
      else Reject ROther
  end.
Definition members_of := members_of_gen pst_comment_keeps_doc.

(* parse_interface *)
Definition iface_of (md : mode) (allow_ub : bool) (t : tree) : outcome idef :=
  let ks := tl (t_kids t) in
  do iname <- ast_unwrap md 12 (hd_error ks);
  do id <- ast_unwrap md 13 (nth_error (t_kids iname) 0);
  let base := match nth_error (t_kids iname) 1 with
              | Some b => if is_rule "ident" b then Some (t_text b) else None
              | None => None end in
  do ms <- members_of md allow_ub (tl ks) None;
  Ok (mkI (t_text id) base ms).

(* one struct_field *)
Definition field_of (md : mode) (t : tree) : outcome sfield :=
  do ty <- ast_unwrap md 14 (nth_error (t_kids t) 0);
  do nx <- ast_unwrap md 15 (nth_error (t_kids t) 1);
  if is_rule "bounded_array" nx then
    do n <- count_unwrap pst_array_size_checked md 16 (parse_count (inner_str nx));
    do id <- ast_unwrap md 17 (nth_error (t_kids t) 2);
    Ok (mkF (t_text id) (type_of ty) n)
  else if is_rule "ident" nx then Ok (mkF (t_text nx) (type_of ty) 1%N)
  else Reject ROther.

Fixpoint fields_of (md : mode) (ts : list tree) : outcome (list sfield) :=
  match ts with
  | [] => Ok []
  | t :: r =>
      if is_rule "struct_field" t then do f <- field_of md t; do fs <- fields_of md r; Ok (f :: fs)
      else if is_rule "COMMENT" t then fields_of md r
      else Reject ROther
  end.

Definition struct_of (md : mode) (t : tree) : outcome sdef :=
  let ks := tl (t_kids t) in
  do id <- ast_unwrap md 18 (hd_error ks);
  do fs <- fields_of md (tl ks);
  Ok (mkS (t_text id) fs).

(* parse_to_ast: children of the idl pair *)
Fixpoint nodes_of (md : mode) (allow_ub : bool) (ts : list tree) : outcome (list node) :=
  match ts with
  | [] => Ok []
  | t :: r =>
      if is_rule "include" t then
        do p <- ast_unwrap md 19 (hd_error (t_kids t)); do ns <- nodes_of md allow_ub r; Ok (NInclude (t_text p) :: ns)
      else if is_rule "struct" t then
        do s <- struct_of md t; do ns <- nodes_of md allow_ub r; Ok (NStruct s :: ns)
      else if is_rule "const" t then
        do c <- const_of md allow_ub t; do ns <- nodes_of md allow_ub r; Ok (NConst c :: ns)
      else if is_rule "interface" t then
        do i <- iface_of md allow_ub t; do ns <- nodes_of md allow_ub r; Ok (NIface i :: ns)
      else nodes_of md allow_ub r
  end.

Definition pst_to_ast_raw (md : mode) (allow_ub : bool) (idl : tree) : outcome (list node) :=
  nodes_of md allow_ub (t_kids idl).

(* ---- the helper `children` of pst.rs (after the repair of the positional reads): every read by
   position inside a declaration skips COMMENT pairs.  That is the raw conversion above applied
   to the tree with those pairs removed: everywhere inside constants, structs, struct fields,
   functions, errors, parameters, parameter types and array brackets; inside an interface the
   comments before the `iname` header and inside it are removed, the comments between members
   stay (they may be documentation). ---- *)
Fixpoint strip_deep (t : tree) : tree :=
  match t with
  | T r s ks =>
      T r s ((fix go (l : list tree) : list tree :=
                match l with
                | [] => []
                | k :: l' => if is_rule "COMMENT" k then go l' else strip_deep k :: go l'
                end) ks)
  end.

Fixpoint drop_comments (l : list tree) : list tree :=
  match l with
  | [] => []
  | k :: l' => if is_rule "COMMENT" k then drop_comments l' else l
  end.

Definition strip_iface (t : tree) : tree :=
  match t with
  | T r s (kw :: rest) =>
      match drop_comments rest with
      | header :: ms => T r s (kw :: strip_deep header :: map (fun m => if is_rule "COMMENT" m then m else strip_deep m) ms)
      | [] => T r s [kw]
      end
  | _ => t
  end.

Definition strip_top (t : tree) : tree :=
  if is_rule "interface" t then strip_iface t
  else if is_rule "struct" t || is_rule "const" t then strip_deep t
  else t.

Definition strip_idl (t : tree) : tree :=
  match t with T r s ks => T r s (map strip_top ks) end.

(* the tree the conversion effectively reads *)
Definition canon (t : tree) : tree := if pst_skips_comments then strip_idl t else t.

Definition pst_to_ast (md : mode) (allow_ub : bool) (idl : tree) : outcome (list node) :=
  pst_to_ast_raw md allow_ub (canon idl).
