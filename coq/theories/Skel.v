(* Skel.v — the refusal logic of a generated skeleton case arm (C: invoke.rs:383-431 emit and the
   guards pushed by the visitors; Rust: the early returns): the counts comparison first, then
   one size comparison per fixed-size slot, in slot order; everything else is served.
   Definitions only. *)
Require Import Base Syntax Front Plan.
Open Scope N_scope.

(* fixed-size slots of the plan: (slot index, required byte size) *)
Fixpoint guards_from (evs : list event) (idx : N) : list (N * N) :=
  match evs with
  | [] => []
  | EBundle _ ms :: r => (idx, packed_size ms) :: guards_from r (idx + 1)
  | EParam p :: r =>
      let n := N.of_nat (List.length (param_slots p)) in
      match mp_shape p, mp_ty p with
      | PVal, MPrim _ => (idx, psize p) :: guards_from r (idx + n)
      | PVal, MStruct _ _ => (idx, psize p) :: guards_from r (idx + n)
      | _, _ => guards_from r (idx + n)
      end
  end.
Definition guards (ps : list mparam) : list (N * N) := guards_from (with_bundling ps) 0.

(* an incoming envelope as far as the refusal logic looks at it *)
Record envelope_in := mkEnv { ei_counts : N * N * N * N; ei_sizes : list N }.   (* size of every slot *)

Definition quad_eq (a b : N * N * N * N) : bool :=
  let '(a1, a2, a3, a4) := a in let '(b1, b2, b3, b4) := b in
  (a1 =? b1) && (a2 =? b2) && (a3 =? b3) && (a4 =? b4).

Definition size_at (e : envelope_in) (i : N) : N := nth (N.to_nat i) (ei_sizes e) 0.

(* true = the arm goes on to call the implementation *)
Definition arm_accepts (expected : N * N * N * N) (gs : list (N * N)) (e : envelope_in) : bool :=
  quad_eq (ei_counts e) expected && forallb (fun g => size_at e (fst g) =? snd g) gs.

(* the dispatcher: state = number of times the implementation was entered *)
Inductive result := Served | Refused (code : N).
Definition dispatch (table : list (N * ((N * N * N * N) * list (N * N) * bool)))   (* op -> counts, guards, implemented *)
           (invalid generic : N) (op : N) (e : envelope_in) (entered : N) : result * N :=
  match find (fun r => fst r =? op) table with
  | None => (Refused invalid, entered)
  | Some (_, (c, gs, implemented)) =>
      if arm_accepts c gs e then
        if implemented then (Served, entered + 1) else (Refused invalid, entered)
      else (Refused generic, entered)
  end.
