(* PstWf.v — the shapes of the pair trees the grammar produces when no comment sits between the
   tokens of a declaration and every array size is in 1..65535.  Definitions only. *)
Require Import Base Syntax Consts Pst.
Open Scope string_scope.
Open Scope list_scope.

(* ---- the shapes ---- *)
Definition wf_array (t : tree) : bool :=
  (is_rule "unbounded_array" t) ||
  (is_rule "bounded_array" t && match parse_count (inner_str t) with Some _ => true | None => false end).

Definition wf_param_type (t : tree) : bool :=
  is_rule "param_type" t &&
  match t_kids t with
  | [_] => true
  | [_; a] => wf_array a
  | _ => false
  end.

Definition wf_param (t : tree) : bool :=
  match t_kids t with
  | [m; ty; _] => (String.eqb (t_text m) "in" || String.eqb (t_text m) "out") && wf_param_type ty
  | _ => false
  end.

Definition wf_attr (a : tree) : bool :=
  negb (is_rule "attribute" a) || match t_kids a with [_] => true | _ => false end.

Definition wf_function (t : tree) : bool :=
  match t_kids t with
  | kw :: _ :: ps => forallb wf_attr (t_kids kw) &&
                     forallb (fun p => negb (is_rule "param" p) || wf_param p) ps
  | _ => false
  end.

Definition wf_const (t : tree) : bool :=
  match t_kids t with [_; _; _; _] => true | _ => false end.
Definition wf_error (t : tree) : bool :=
  match t_kids t with [_; _] => true | _ => false end.

Definition wf_member (t : tree) : bool :=
  if is_rule "COMMENT" t then true
  else if is_rule "const" t then wf_const t
  else if is_rule "function" t then wf_function t
  else if is_rule "error" t then wf_error t
  else false.

Definition wf_iface (t : tree) : bool :=
  match t_kids t with
  | _ :: iname :: ms => match t_kids iname with [_] | [_; _] => true | _ => false end && forallb wf_member ms
  | _ => false
  end.

Definition wf_field (t : tree) : bool :=
  match t_kids t with
  | [_; x] => is_rule "ident" x
  | [_; a; _] => is_rule "bounded_array" a && match parse_count (inner_str a) with Some _ => true | None => false end
  | _ => false
  end.

Definition wf_struct (t : tree) : bool :=
  match t_kids t with
  | _ :: _ :: fs => forallb (fun f => is_rule "COMMENT" f || (is_rule "struct_field" f && wf_field f)) fs
  | _ => false
  end.

Definition wf_top (t : tree) : bool :=
  if is_rule "include" t then match t_kids t with [_] => true | _ => false end
  else if is_rule "struct" t then wf_struct t
  else if is_rule "const" t then wf_const t
  else if is_rule "interface" t then wf_iface t
  else true.

Definition wf_idl (t : tree) : bool := forallb wf_top (t_kids t).

