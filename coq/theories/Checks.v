(* Checks.v — executable glue used by the generated cases files: decoders of
   implementation observations (sx) and per-property check functions returning
   small flag lists.  Nothing here is used by a theorem. *)
Require Import Base Syntax Front Obs.
Require Import spec.Spec_Numbering.
Open Scope N_scope.

Definition b2n (b : bool) : N := if b then 1 else 0.

Definition sx_list (s : sx) : list sx := match s with SL l => l | _ => [] end.
Definition sx_str (s : sx) : string := match s with SS x => x | _ => EmptyString end.
Definition sx_z (s : sx) : Z := match s with SA z => z | _ => 0%Z end.
Definition sx_n (s : sx) : N := Z.to_N (sx_z s).
Definition sx_nth (s : sx) (k : nat) : sx := nth k (sx_list s) (SL []).

(* interface observation: SL [SS name; SL [] | SL [base]; SL nodes] *)
Fixpoint sxi_root_first (fuel : nat) (i : sx) : list sx :=
  match fuel with
  | O => []
  | S f =>
      match sx_list (sx_nth i 1) with
      | [] => [i]
      | b :: _ => sxi_root_first f b ++ [i]
      end
  end.

Definition sxi_funcs (i : sx) : list (string * N) :=
  flat_map (fun n => match sx_list n with
                     | SA 1%Z :: SS nm :: SA id :: _ => [(nm, Z.to_N id)]
                     | _ => []
                     end) (sx_list (sx_nth i 2)).
Definition sxi_errors (i : sx) : list (string * Z) :=
  flat_map (fun n => match sx_list n with
                     | SA 2%Z :: SS nm :: SA v :: _ => [(nm, v)]
                     | _ => []
                     end) (sx_list (sx_nth i 2)).

Definition obs_ifaces (mir : sx) : list sx :=
  flat_map (fun t => match sx_list t with
                     | [SA 3%Z; i] => [i]
                     | _ => []
                     end) (sx_list mir).

Definition obs_optable (mir : sx) : optable :=
  map (fun i => (sx_str (sx_nth i 0), flat_map sxi_funcs (sxi_root_first 100 i))) (obs_ifaces mir).
Definition obs_errtable (mir : sx) : errtable :=
  map (fun i => (sx_str (sx_nth i 0), flat_map sxi_errors (sxi_root_first 100 i))) (obs_ifaces mir).

Definition impl_payload (impl : sx) : sx := sx_nth impl 1.

Definition model_front (e : entry) (files : list ast) : sx :=
  sx_outcome sx_mir (front e Debug files).

(* [agree; class agree] *)
Definition chk_front (e : entry) (files : list ast) (impl : sx) : list N :=
  let m := model_front e files in
  [b2n (outcome_agree m impl); b2n (class_agree m impl)].

(* C07: [agree; class; spec on the implementation's MIR; every backend table equals it] *)
Definition chk_c07 (e : entry) (files : list ast) (impl : sx) (tables : list optable) : list N :=
  let m := model_front e files in
  let t := obs_optable (impl_payload impl) in
  [b2n (outcome_agree m impl); b2n (class_agree m impl);
   b2n (if accepted_sx impl then spec_c07 files t else true);
   b2n (if accepted_sx impl then forallb (fun b => same_table N.eqb b t) tables else true)].

Definition chk_c08 (e : entry) (files : list ast) (impl : sx) (tables : list errtable) : list N :=
  let m := model_front e files in
  let t := obs_errtable (impl_payload impl) in
  [b2n (outcome_agree m impl); b2n (class_agree m impl);
   b2n (if accepted_sx impl then spec_c08 files t else true);
   b2n (if accepted_sx impl then forallb (fun b => same_table Z.eqb b t) tables else true)].

(* diagnostics: the model's own observation, printed when a case disagrees *)
Definition show_model (e : entry) (files : list ast) : sx := model_front e files.
