(* Checks.v — executable glue used by the generated cases files: decoders of
   implementation observations (sx) and per-property check functions returning
   small flag lists.  Nothing here is used by a theorem. *)
Require Import Base Syntax Front Obs.
Require Import spec.Spec_Numbering.
Open Scope N_scope.

Definition b2n (b : bool) : N := if b then 1 else 0.

Definition sx_list (s : sx) : list sx := match s with SL l => l | _ => [] end.
Definition sx_str (s : sx) : string := match s with SS x => x | _ => EmptyString end.
Definition sx_z (s : sx) : Z := match s with SA z => z | _ => 0%Z end.
Definition sx_n (s : sx) : N := Z.to_N (sx_z s).
Definition sx_nth (s : sx) (k : nat) : sx := nth k (sx_list s) (SL []).

(* interface observation: SL [SS name; SL [] | SL [base]; SL nodes] *)
Fixpoint sxi_root_first (fuel : nat) (i : sx) : list sx :=
  match fuel with
  | O => []
  | S f =>
      match sx_list (sx_nth i 1) with
      | [] => [i]
      | b :: _ => sxi_root_first f b ++ [i]
      end
  end.

Definition sxi_funcs (i : sx) : list (string * N) :=
  flat_map (fun n => match sx_list n with
                     | SA 1%Z :: SS nm :: SA id :: _ => [(nm, Z.to_N id)]
                     | _ => []
                     end) (sx_list (sx_nth i 2)).
Definition sxi_errors (i : sx) : list (string * Z) :=
  flat_map (fun n => match sx_list n with
                     | SA 2%Z :: SS nm :: SA v :: _ => [(nm, v)]
                     | _ => []
                     end) (sx_list (sx_nth i 2)).

Definition obs_ifaces (mir : sx) : list sx :=
  flat_map (fun t => match sx_list t with
                     | [SA 3%Z; i] => [i]
                     | _ => []
                     end) (sx_list mir).

Definition obs_optable (mir : sx) : optable :=
  map (fun i => (sx_str (sx_nth i 0), flat_map sxi_funcs (sxi_root_first 100 i))) (obs_ifaces mir).
Definition obs_errtable (mir : sx) : errtable :=
  map (fun i => (sx_str (sx_nth i 0), flat_map sxi_errors (sxi_root_first 100 i))) (obs_ifaces mir).

Definition impl_payload (impl : sx) : sx := sx_nth impl 1.

Definition model_front (e : entry) (files : list ast) : sx :=
  sx_outcome sx_mir (front e Debug files).

(* [agree; class agree] *)
Definition chk_front (e : entry) (files : list ast) (impl : sx) : list N :=
  let m := model_front e files in
  [b2n (outcome_agree m impl); b2n (class_agree m impl)].

(* C07: [agree; class; spec on the implementation's MIR; every backend table equals it] *)
Definition chk_c07 (e : entry) (files : list ast) (impl : sx) (tables : list optable) : list N :=
  let m := model_front e files in
  let t := obs_optable (impl_payload impl) in
  [b2n (outcome_agree m impl); b2n (class_agree m impl);
   b2n (if accepted_sx impl then spec_c07 files t else true);
   b2n (if accepted_sx impl then forallb (fun b => same_table N.eqb b t) tables else true);
   b2n (if accepted_sx impl then spec_names_unique t else true)].

Definition chk_c08 (e : entry) (files : list ast) (impl : sx) (tables : list errtable) : list N :=
  let m := model_front e files in
  let t := obs_errtable (impl_payload impl) in
  [b2n (outcome_agree m impl); b2n (class_agree m impl);
   b2n (if accepted_sx impl then spec_c08 files t else true);
   b2n (if accepted_sx impl then forallb (fun b => same_table Z.eqb b t) tables else true);
   b2n (if accepted_sx impl then spec_names_unique t else true)].

(* diagnostics: the model's own observation, printed when a case disagrees *)
Definition show_model (e : entry) (files : list ast) : sx := model_front e files.

(* plan correspondence: [front agree; class agree; plans agree] *)
Require Import Plan PlanObs.
Definition chk_plans (e : entry) (files : list ast) (impl impl_plans : sx) : list N :=
  let o := front e Debug files in
  let m := sx_outcome sx_mir o in
  [b2n (outcome_agree m impl); b2n (class_agree m impl);
   b2n (match o with Ok mir => sx_eqb (sx_plans mir) impl_plans | _ => true end)].
Definition show_plans (e : entry) (files : list ast) : sx :=
  match front e Debug files with Ok mir => sx_plans mir | _ => SL [] end.

(* ---- C02 ---- *)
Require Import spec.Spec_C02 PlanDefs.

Definition find_mfunc (mir : list mtop) (iface meth : string) : option mfunc :=
  match find (fun t => match t with MTIface i => String.eqb (mi_name i) iface | _ => false end) mir with
  | Some (MTIface top) =>
      find (fun f => String.eqb (mf_name f) meth)
           (flat_map (fun x => mnode_funcs (mi_nodes x)) (mi_chain top))
  | _ => None
  end.

Definition envelope := ((N * N * N * N) * list N)%type.

Definition model_envelope (f : mfunc) : option envelope :=
  match counter Debug (mf_params f) with
  | Ok c => Some ((nbi c, nbo c, noi c, noo c), plan_secs (mf_params f))
  | _ => None
  end.

Definition over_limit (kinds : list N) : bool :=
  existsb (fun k => 15 <? mult k kinds) [0; 1; 2; 3].

Definition envelope_eqb (a b : envelope) : bool :=
  quad_eqb (fst a) (fst b) && list_eqb N.eqb (snd a) (snd b).

(* 0 canonical; 1 violation outside every known class; 2 K_interleave; 3 K_objarr_after_out; 4 K_no_limit *)
Definition classify_env (f : mfunc) (e : envelope) : N :=
  if envelope_canonical (fst e) (snd e) then 0 else
  match model_envelope f with
  | Some m =>
      let mbad := negb (envelope_canonical (fst m) (snd m)) in
      if mbad && has_objstruct_value (mf_params f) then 2
      else if mbad && objarr_after_out (mf_params f) then 3
      else if mbad && over_limit (snd m) then 4
      else 1
  | None => 1
  end.

Definition count_eq (k : N) (l : list N) : N := N.of_nat (List.length (filter (N.eqb k) l)).

(* the implementation's envelope, decoded from its own observation: Counter fields and the
   visitor event trace (codes of harness/src/plan.rs); object-bearing structs contribute
   one object slot per entry of StructInner::objects() *)
Definition event_kinds (ev : sx) : list N :=
  match sx_list ev with
  | SA code :: rest =>
      let objs := N.of_nat (List.length (sx_list (nth 3 rest (SL [])))) in
      let cnt := sx_n (nth 2 rest (SA 0)) in
      match Z.to_N code with
      | 0 | 1 | 2 | 3 | 4 => [0]
      | 5 | 6 => 0 :: repeat 2 (N.to_nat objs)
      | 7 => [2]
      | 8 => repeat 2 (N.to_nat cnt)
      | 10 | 11 | 12 | 13 | 14 => [1]
      | 15 | 16 => 1 :: repeat 3 (N.to_nat objs)
      | 17 => [3]
      | 18 => repeat 3 (N.to_nat cnt)
      | _ => [9]
      end
  | _ => [9]
  end.

(* plan observation: SL [SS top; SS from; SL [SS name; sorted; counts; events]] *)
Definition impl_envelopes (plans : sx) : list (string * string * option envelope) :=
  map (fun p =>
         let pl := sx_nth p 2 in
         let c := sx_list (sx_nth pl 2) in
         (sx_str (sx_nth p 0), sx_str (sx_nth pl 0),
          match c with
          | [a; b; c'; d] => Some ((sx_n a, sx_n b, sx_n c', sx_n d),
                                   flat_map event_kinds (sx_list (sx_nth pl 3)))
          | _ => None        (* Counter panicked *)
          end)) (sx_list plans).

Definition raw_kind (k : N) : N := if k <? 2 then 0 else 1.

(* [front agree; class agree; plans agree; #scraped stub envelopes whose counts or raw slot
    kinds differ from the model's; #canonical; #violations; #K_interleave; #K_objarr_after_out;
    #K_no_limit]  — the Spec is evaluated on the implementation's own envelopes *)
Definition chk_c02 (e : entry) (files : list ast) (impl impl_plans : sx)
           (envs : list (string * string * envelope)) : list N :=
  let o := front e Debug files in
  let m := sx_outcome sx_mir o in
  match o with
  | Ok mir =>
      let cls := flat_map (fun x => let '(i, mth, oenv) := x in
                        match find_mfunc mir i mth, oenv with
                        | Some f, Some env => [classify_env f env]
                        | None, Some _ => [1]
                        | _, None => []
                        end) (impl_envelopes impl_plans) in
      let l1bad := filter (fun x => let '(i, mth, env) := x in
                        match find_mfunc mir i mth with
                        | Some f => match model_envelope f with
                                    | Some me => negb (envelope_eqb (fst me, map raw_kind (snd me)) env)
                                    | None => true end
                        | None => true
                        end) envs in
      [b2n (outcome_agree m impl); b2n (class_agree m impl);
       b2n (sx_eqb (sx_plans mir) impl_plans);
       N.of_nat (List.length l1bad);
       count_eq 0 cls; count_eq 1 cls; count_eq 2 cls; count_eq 3 cls; count_eq 4 cls]
  | _ => [b2n (outcome_agree m impl); b2n (class_agree m impl); 1; 0; 0; 0; 0; 0; 0]
  end.

(* ---- C15: revision pairs ---- *)
(* rows of (interface, method) that must be stable; compares op-codes, error values and the
   per-method plan observation of the implementation between the two revisions.
   [model agrees A; model agrees B; plans agree A; plans agree B; #stable rows that changed] *)
Definition plan_of (plans : sx) (i m : string) : option sx :=
  match find (fun p => String.eqb (sx_str (sx_nth p 0)) i && String.eqb (sx_str (sx_nth (sx_nth p 2) 0)) m)
             (sx_list plans) with
  | Some p => Some (sx_nth p 2)
  | None => None
  end.
Definition lookup2 {V} (t : list (string * list (string * V))) (i m : string) : option V :=
  match alookup i t with Some row => alookup m row | None => None end.
Definition opt_eqb {V} (eqb : V -> V -> bool) (a b : option V) : bool :=
  match a, b with Some x, Some y => eqb x y | _, _ => false end.

Definition chk_c15 (filesA filesB : list ast) (implA implB plansA plansB : sx)
           (stable_methods stable_errors new_methods : list (string * string)) : list N :=
  let oa := front Cli Debug filesA in
  let ob := front Cli Debug filesB in
  let ta := obs_optable (impl_payload implA) in
  let tb := obs_optable (impl_payload implB) in
  let ea := obs_errtable (impl_payload implA) in
  let eb := obs_errtable (impl_payload implB) in
  [b2n (outcome_agree (sx_outcome sx_mir oa) implA); b2n (outcome_agree (sx_outcome sx_mir ob) implB);
   b2n (match oa with Ok mir => sx_eqb (sx_plans mir) plansA | _ => true end);
   b2n (match ob with Ok mir => sx_eqb (sx_plans mir) plansB | _ => true end);
   N.of_nat (List.length (filter (fun im =>
     negb (opt_eqb N.eqb (lookup2 ta (fst im) (snd im)) (lookup2 tb (fst im) (snd im)) &&
           opt_eqb sx_eqb (plan_of plansA (fst im) (snd im)) (plan_of plansB (fst im) (snd im))))
     stable_methods));
   N.of_nat (List.length (filter (fun ie =>
     negb (opt_eqb Z.eqb (lookup2 ea (fst ie) (snd ie)) (lookup2 eb (fst ie) (snd ie))))
     stable_errors));
   (* an appended method must not reuse an op-code the old revision dispatches *)
   N.of_nat (List.length (filter (fun im =>
     match lookup2 tb (fst im) (snd im), alookup (fst im) ta with
     | Some v, Some row => existsb (N.eqb v) (map snd row)
     | None, _ => true
     | _, None => false
     end) new_methods))].

(* ---- C06 ---- *)
Require Import Layout spec.Spec_C06.

Definition assumed_of_sx (s : sx) : list assumed :=
  map (fun x => (sx_str (sx_nth x 0), sx_n (sx_nth x 1),
                 map (fun f => (sx_str (sx_nth f 0), sx_n (sx_nth f 1))) (sx_list (sx_nth x 2))))
      (sx_list s).

(* model's own view of the sizes: MIR size of every top-level struct and the verifier's store *)
Definition model_sizes (mir : list mtop) : list (string * N) :=
  flat_map (fun t => match t with MTStruct s => [(mname s, mty_size s)] | _ => [] end) mir.

Definition verified_store (md : mode) (files : list ast) : option (list (string * (N * N))) :=
  match files with
  | main :: _ =>
      match gather_files st_empty files with
      | Ok st => match cycles_pass st main with
                 | Ok order => match verify_structs md st [] order with Ok s => Some s | _ => None end
                 | _ => None end
      | _ => None end
  | [] => None
  end.

(* [front agree; class agree; MIR sizes = implementation's sizes; MIR sizes = verifier's sizes;
    Spec_C06 on the probes of the emitted types] *)
Definition chk_c06 (files : list ast) (impl sizes : sx) (probes : list probe) : list N :=
  let o := front Cli Debug files in
  let m := sx_outcome sx_mir o in
  match o with
  | Ok mir =>
      let asm := assumed_of_sx sizes in
      let ms := model_sizes mir in
      [b2n (outcome_agree m impl); b2n (class_agree m impl);
       b2n (list_eqb (fun a b => String.eqb (fst a) (fst b) && (snd a =? snd b)) ms
                     (map (fun a => (fst (fst a), snd (fst a))) asm));
       b2n (match verified_store Debug files with
            | Some vs => forallb (fun x => match alookup (fst x) vs with
                                           | Some (sz, _) => sz =? snd x
                                           | None => false end) ms
            | None => false end);
       b2n (spec_c06 asm probes)]
  | _ =>
      (* the model rejects: when the implementation accepted all the same, the Spec is still
         evaluated on the implementation's own assumed sizes against the target layouts *)
      [b2n (outcome_agree m impl); b2n (class_agree m impl); 1; 1;
       b2n (if accepted_sx impl then spec_c06 (assumed_of_sx sizes) probes else true)]
  end.

(* validation of Layout.v against the target compilers on arbitrary (also padded) structs:
   [every probe equals the model's c_struct prediction] *)
Definition model_layouts (files : list ast) : list probe :=
  match files with
  | main :: _ =>
      match gather_files st_empty files with
      | Ok st =>
          match struct_order st [] (flat_map ast_structs files) with
          | Ok rorder =>
              let order := rev rorder in
              (fix go (cstore : list (string * (N * N))) (order : list string) : list probe :=
                 match order with
                 | [] => []
                 | n :: r =>
                     match struct_lookup st n with
                     | Some s => match c_struct cstore (s_fields s) with
                                 | Some (offs, sz, a) => (n, sz, a, offs) :: go ((n, (sz, a)) :: cstore) r
                                 | None => []
                                 end
                     | None => []
                     end
                 end) [] order
          | _ => [] end
      | _ => [] end
  | [] => []
  end.

Definition probe_eqb (a b : probe) : bool :=
  let '(n1, s1, a1, o1) := a in let '(n2, s2, a2, o2) := b in
  String.eqb n1 n2 && (s1 =? s2) && (a1 =? a2) && list_eqb N.eqb o1 o2.

(* struct types that reach emitted code through parameters, with the size used for them *)
Definition param_structs (mir : list mtop) : list (string * N) :=
  flat_map (fun t => match t with
     | MTIface top =>
         flat_map (fun from => flat_map (fun f =>
             flat_map (fun p => match mp_ty p with
                                | MStruct n _ => [(n, mty_size (mp_ty p))]
                                | _ => [] end) (mf_params f))
           (mnode_funcs (mi_nodes from))) (mi_chain top)
     | _ => [] end) mir.

Definition verifier_order (files : list ast) : list string :=
  match files with
  | main :: _ => match gather_files st_empty files with
                 | Ok st => match cycles_pass st main with Ok o => o | _ => [] end
                 | _ => [] end
  | [] => []
  end.

(* (struct name, unverified?) for every parameter struct whose probed size differs *)
Definition bad_param_structs (files : list ast) (probes : list probe) : list (string * bool) :=
  match front Cli Debug files with
  | Ok mir =>
      flat_map (fun ps =>
        if forallb (fun p => let '(pn, psz, _, _) := p in
                             negb (String.eqb pn (fst ps)) || (psz =? snd ps)) probes
        then [] else [(fst ps, negb (mem_str (fst ps) (verifier_order files)))])
        (param_structs mir)
  | _ => []
  end.

(* [Layout.v = raw probes; #model layouts; every struct used as a parameter has the size the
    target compilers give it (raw probes)] *)
Definition chk_layout (files : list ast) (probes : list probe) : list N :=
  let ml := model_layouts files in
  [b2n (forallb (fun p => existsb (probe_eqb p) ml) probes); N.of_nat (List.length ml);
   (* parameter structs whose target size differs from the size used for marshalling:
      outside / inside the class "never seen by the verifier" (not in the dependency order
      of the main file's structs) *)
   N.of_nat (List.length (filter (fun x => negb (snd x)) (bad_param_structs files probes)));
   N.of_nat (List.length (filter (fun x => snd x) (bad_param_structs files probes)))].

(* ---- C12 ---- *)
Require Import Includes spec.Spec_C12.
Definition wres_code (r : wres) : N :=
  match r with WOk _ _ => 1 | WMissing => 2 | WCycle => 3 | WParse => 4 | WFuel => 5 end.
(* [model verdict = impl; model loaded set = impl; Spec verdict = impl; reachable = impl's
    loaded set; model outcome code] *)
Definition chk_c12 (w : world) (impl_ok : bool) (impl_loaded : list path) : list N :=
  let m := walk_main w in
  [b2n (Bool.eqb (match m with WOk _ _ => true | _ => false end) impl_ok);
   b2n (match m with WOk l _ => if impl_ok then same_set l impl_loaded else true | _ => true end);
   b2n (Bool.eqb (spec_accepts w) impl_ok);
   b2n (if impl_ok then same_set (reachable w) impl_loaded else true);
   wres_code m].

(* ---- C19 ---- *)
Require Import Driver.
Definition str_set_eqb (a b : list string) : bool :=
  forallb (fun x => mem_str x b) a && forallb (fun x => mem_str x a) b.
(* expected output names per property text: one file per interface (lower-cased for Rust)
   plus the file-level module when it has content *)
Definition expected_rust (stem : string) (mir : list mtop) : list string :=
  (if has_file_level_content mir ||
      existsb (fun t => match t with MTIface i => String.eqb (lower (mi_name i)) (lower stem) | _ => false end) mir
   then [String.append (lower stem) ".rs"] else []) ++
  flat_map (fun t => match t with
                     | MTIface i => if String.eqb (lower (mi_name i)) (lower stem) then []
                                    else [String.append (lower (mi_name i)) ".rs"]
                     | _ => [] end) mir.
(* [front agree; model's generator verdict and names = the run's; written names = expected
    (one per interface) or, on a file-name collision, the run is rejected; #interfaces] *)
Definition chk_c19_rust (files : list ast) (impl : sx) (stem : string) (rust_ok : bool) (written : list string) : list N :=
  let o := front Cli Debug files in
  let m := sx_outcome sx_mir o in
  match o with
  | Ok mir =>
      let exp := expected_rust stem mir in
      let collide := negb (nodup_str (rust_others stem mir)) in
      [b2n (outcome_agree m impl);
       b2n (match rust_generate stem mir with
            | Some l => rust_ok && str_set_eqb l written
            | None => negb rust_ok && match written with [] => true | _ => false end
            end);
       b2n (if rust_ok then negb collide && str_set_eqb exp written && N.eqb (N.of_nat (List.length exp)) (N.of_nat (List.length written))
            else collide);
       N.of_nat (List.length exp)]
  | _ => [b2n (outcome_agree m impl); 1; 1; 0]
  end.

(* ---- C17 ---- *)
Require Import Consts.
(* per literal: 0 = model, Spec and implementation agree; 1 = model <> implementation;
   2 = Spec <> implementation (integers); 3 = outside the model (hex literal, float type) *)
Definition chk_const (p : prim) (raw : string) (impl_accept : bool) : N :=
  match range_check p raw with
  | None => 1
  | Some m =>
      if negb (Bool.eqb m impl_accept) then
        match int_bits p with
        | Some _ => if Bool.eqb (spec_accept_int p raw) impl_accept then 1 else 4   (* 4: the Spec disagrees too *)
        | None => 1
        end
      else match int_bits p with
           | Some _ => if Bool.eqb (spec_accept_int p raw) impl_accept then 0 else 2
           | None => if impl_accept && l_hex (parse_literal raw) then 3 else 0
           end
  end.
Definition chk_c17 (cs : list (prim * string * bool)) : list N :=
  map (fun x => let '(p, raw, a) := x in chk_const p raw a) cs.
(* expected values the probes are compared with: (C/C++/Java reading, Rust reading, mathematical) *)
Definition z_or (o : option Z) : Z := match o with Some v => v | None => (-999999999999)%Z end.
Definition const_values (raw : string) : list Z :=
  [z_or (eval_c_int raw); z_or (eval_rust_int raw); z_or (math_int (parse_literal raw))].

(* the text each backend writes for a constant: model of the emitters against the generated files.
   One number per constant: bit 0 C, bit 1 C++, bit 2 Java, bit 3 Rust (15 = all four agree) *)
Require Import ConstEmit.
Definition chk_c17_emit (cs : list (prim * string * (string * string * string * string))) : list N :=
  map (fun x => let '(p, raw, (c, cpp, j, r)) := x in
         b2n (String.eqb (show_cexpr (c_const_expr p raw)) c) +
         2 * b2n (String.eqb (show_cexpr (c_const_expr p raw)) cpp) +
         4 * b2n (String.eqb (java_const_literal p raw) j) +
         8 * b2n (String.eqb (rust_const_literal p raw) r)) cs.
Definition show_emitted (p : prim) (raw : string) : list string :=
  [show_cexpr (c_const_expr p raw); java_const_literal p raw; rust_const_literal p raw].

(* ---- C16 / C14: the PST -> AST model against the real parser ---- *)
Require Import Pst PstWf.
Definition sx_aty (t : aty) : sx :=
  match t with TBuffer => SL [SA 0] | TPrim p => SL [SA 1; sx_prim p] | TIface => SL [SA 2] | TCustom n => SL [SA 3; SS n] end.
Definition sx_cdef (c : cdef) : sx := SL [SS (c_name c); sx_prim (c_ty c); SS (c_val c)].
Definition sx_param (p : param) : sx := SL [SB (p_out p); sx_aty (p_ty p); sx_shape (p_shape p); SS (p_name p)].
Definition sx_doc (d : option string) : sx := match d with None => SL [] | Some s => SL [SS s] end.
Definition sx_inode (n : inode) : sx :=
  match n with
  | IConst c => SL [SA 0; sx_cdef c]
  | IFunc f => SL [SA 1; SS (f_name f); SL (map sx_param (f_params f)); SB (f_optional f); sx_doc (f_doc f)]
  | IError e => SL [SA 2; SS e]
  end.
Definition sx_node (n : node) : sx :=
  match n with
  | NInclude p => SL [SA 0; SS p]
  | NConst c => SL [SA 1; sx_cdef c]
  | NStruct s => SL [SA 2; SS (s_name s); SL (map (fun f => SL [SS (sf_name f); sx_aty (sf_ty f); SN (sf_cnt f)]) (s_fields s))]
  | NIface i => SL [SA 3; SS (i_name i); match i_base i with None => SL [] | Some b => SL [SS b] end;
                    SL (map sx_inode (i_nodes i))]
  end.
Definition sx_nodes (ns : list node) : sx := SL (map sx_node ns).

(* [Debug model = real parser (debug build); code of the Release model: 0 ok, 1 reject,
    100+site UB; tree is well-formed; Debug model = Release model] *)
Definition chk_pst (ub : bool) (t : tree) (impl_ok : bool) (impl : list node) : list N :=
  let d := pst_to_ast Debug ub t in
  let r := pst_to_ast Release ub t in
  [b2n (match d with
        | Ok ns => impl_ok && sx_eqb (sx_nodes ns) (sx_nodes impl)
        | Reject _ => negb impl_ok
        | _ => false end);
   match r with Ok _ => 0 | Reject _ => 1 | UB s => 100 + s | OutOfFuel => 3 end;
   b2n (wf_idl (canon t));
   b2n (match d, r with
        | Ok a, Ok b => sx_eqb (sx_nodes a) (sx_nodes b)
        | Reject _, Reject _ => true
        | _, _ => false end)].

(* ---- text -> pair tree: the PEG model on the regenerated grammar vs pest's own output ---- *)
Require Import Peg gen.Grammar.
Fixpoint tree_eqb (a b : tree) : bool :=
  match a, b with
  | T r1 s1 k1, T r2 s2 k2 =>
      String.eqb r1 r2 && String.eqb s1 s2 &&
      (fix go (l1 l2 : list tree) : bool :=
         match l1, l2 with
         | [], [] => true
         | x :: l1', y :: l2' => tree_eqb x y && go l1' l2'
         | _, _ => false
         end) k1 k2
  end.
(* bytes outside printable ASCII, tab, LF and CR become '?' on both sides (the case files stay
   plain ASCII); the comparison is on byte strings *)
Definition san_ascii (c : ascii) : ascii :=
  let n := nat_of_ascii c in
  if (Nat.leb 32 n && Nat.leb n 126) || Nat.eqb n 10 || Nat.eqb n 9 || Nat.eqb n 13 then c else "?"%char.
Fixpoint san_str (s : string) : string :=
  match s with EmptyString => EmptyString | String c r => String (san_ascii c) (san_str r) end.
Fixpoint san_tree (t : tree) : tree :=
  match t with T r s k => T r (san_str s) (map san_tree k) end.
Definition bytes_of (codes : list N) : list ascii := map (fun n => ascii_of_N n) codes.
(* 1: the model and pest agree (same pair tree, or both reject); 0: they differ; 2: fuel *)
Definition chk_peg (codes : list N) (dump : option tree) : N :=
  match parse_with idl_grammar (bytes_of codes), dump with
  | ROk [] [t], Some d => b2n (tree_eqb (san_tree t) d)
  | RFuel, _ => 2
  | ROk [] [_], None => 0
  | _, Some _ => 0
  | _, None => 1
  end.

(* ---- C01 / C03 / C04 / C05: classification of the methods of an interface for the L2 runs ---- *)
(* 0 outside every known class; 2 object-bearing struct value; 3 input object array with a
   single output object; 4 a class multiplicity above 15; 5 a bundle with interior padding *)
Definition method_class (f : mfunc) : N :=
  let ps := mf_params f in
  if has_objstruct_value ps then 2
  else if objarr_after_out ps then 3
  else if over_limit (plan_secs ps) then 4
  else if has_padded_bundle ps then 5
  else 0.

Definition chk_l2_classes (files : list ast) (iface : string) : list N :=
  match front Cli Debug files with
  | Ok mir =>
      match find (fun t => match t with MTIface i => String.eqb (mi_name i) iface | _ => false end) mir with
      | Some (MTIface top) =>
          (* the flattened interface, root ancestor first *)
          map method_class (flat_map (fun x => mnode_funcs (mi_nodes x)) (rev (mi_chain top)))
      | _ => []
      end
  | _ => []
  end.

(* ---- C04: the guards scraped from the emitted skeleton against the model ---- *)
Require Import Skel.
Definition chk_guards (files : list ast) (iface : string) (scraped : list (string * list (N * N))) : list N :=
  match front Cli Debug files with
  | Ok mir =>
      match find (fun t => match t with MTIface i => String.eqb (mi_name i) iface | _ => false end) mir with
      | Some (MTIface top) =>
          [N.of_nat (List.length (filter (fun f =>
             match alookup (mf_name f) scraped with
             | Some g => negb (list_eqb (fun a b => (fst a =? fst b) && (snd a =? snd b)) g (guards (mf_params f)))
             | None => true end) (mnode_funcs (mi_nodes top))))]
      | _ => [999]
      end
  | _ => [999]
  end.

(* ---- C05: the ledger the model predicts for one observed call of one pairing ---- *)
Require Import Own.
Definition backend_of (n : N) : backend := if n =? 0 then BC else if n =? 1 then BCpp else BRust.
Definition opt_of (z : Z) : option N := if (z <? 0)%Z then None else Some (Z.to_N z).
Definition c05_ids : list N := [1; 2; 3; 4; 5; 6].
(* ins: object id per input position (-1 null); po: per output position (id the holder owns
   before, id the implementation hands over); oh: holders observed after the call; oc / od:
   counts of objects 1..6 observed when the call has returned / after the caller dropped all;
   l0: their counts before the call (objects leaked by earlier calls stay alive).
   -> [holders agree; counts after call agree; counts after drop agree; #positions that leak;
       hypotheses of the theorems hold] *)
Definition ledger_of (l : list Z) : ledger := fun y => nth (N.to_nat (y - 1)) l 0%Z.
Definition chk_c05 (b1 b2 : N) (l0 ins : list Z) (po : list (Z * Z)) (ok : bool) (oh oc od : list Z) : list N :=
  let s := {| sc_ins := map opt_of ins;
              sc_outs := map (fun p => (opt_of (fst p), opt_of (snd p))) po; sc_ok := ok |} in
  let B1 := backend_of b1 in
  let B2 := backend_of b2 in
  let r := after_call B1 B2 s (ledger_of l0) in
  let Ld := after_drop B1 B2 s (ledger_of l0) in
  [ b2n (list_eqb opt_eqb (fst r) (map opt_of oh));
    b2n (list_eqb Z.eqb (map (snd r) c05_ids) oc);
    b2n (list_eqb Z.eqb (map Ld c05_ids) od);
    N.of_nat (List.length (filter (fun o => match o with Some _ => true | None => false end) (leaked consume_leaks (sc_outs s))));
    b2n (holders_only_cpp B1 s) ].

(* object paths of a struct type as the emitters enumerate them: distinct? (K_dup_path) *)
Definition chk_paths_distinct (files : list ast) (iface : string) : list N :=
  match front Cli Debug files with
  | Ok mir =>
      match find (fun t => match t with MTIface i => String.eqb (mi_name i) iface | _ => false end) mir with
      | Some (MTIface top) =>
          map (fun f => b2n (forallb (fun p =>
                 match mp_ty p with
                 | MStruct _ _ => nodup_str (map (fun x => String.concat "." (fst x)) (objects_model (mp_ty p)))
                 | _ => true end) (mf_params f))) (mnode_funcs (mi_nodes top))
      | _ => []
      end
  | _ => []
  end.

(* ---- C18: Java classes of the methods and the captured counts against the model ---- *)
Require Import JavaBackend.
Definition chk_java_classes (files : list ast) (iface : string) : list N :=
  match front Cli Debug files with
  | Ok mir =>
      match find (fun t => match t with MTIface i => String.eqb (mi_name i) iface | _ => false end) mir with
      | Some (MTIface top) => map java_class (mnode_funcs (mi_nodes top))
      | _ => []
      end
  | _ => []
  end.

(* captured: per method the lengths of the bi / boSizes / oi / oo arrays the proxy passed to
   invoke; -> number of methods whose captured lengths differ from the model's counts *)
Definition chk_java_counts (files : list ast) (iface : string) (captured : list (string * (N * N * N * N))) : list N :=
  match front Cli Debug files with
  | Ok mir =>
      match find (fun t => match t with MTIface i => String.eqb (mi_name i) iface | _ => false end) mir with
      | Some (MTIface top) =>
          [N.of_nat (List.length (filter (fun f =>
             match alookup (mf_name f) captured with
             | Some c =>
                 let secs := map skind_code (java_slots (mf_params f)) in
                 negb (quad_eqb c (count_eq 0 secs, count_eq 1 secs, count_eq 2 secs, count_eq 3 secs))
             | None => false end) (mnode_funcs (mi_nodes top))));
           N.of_nat (List.length captured)]
      | _ => [999; 0]
      end
  | _ => [999; 0]
  end.

(* ---- C11: does a parameter called [name] shadow a template local? (one flag per case) ---- *)
Require Import Emit.
Definition chk_shadow (cases : list (N * N * string)) : list N :=
  map (fun c => let '(l, k, name) := c in
         b2n (shadows (if l =? 0 then LC else if l =? 1 then LCpp else if l =? 2 then LRust else LJava)
                      (if k =? 0 then KData else if k =? 1 then KObject else KMethod) (id name))) cases.
(* depth of the hierarchy -> is the C++ base clause the emitter writes well formed? *)
Definition chk_base_clause (depths : list N) : list N :=
  map (fun d => b2n (wf_base_clause (cpp_base_clause (repeat "X"%string (N.to_nat d))))) depths.
