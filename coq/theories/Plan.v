(* Plan.v — the marshalling plan shared by all backends:
   impl Ord for Param (mir.rs:346-416), the stable sort of the parameters,
   PackedPrimitives::new (serialization.rs:99-107), Param::new / visit_params_with_bundling
   (functions.rs:102-158) and Counter (counts.rs).  Definitions only. *)
Require Import Base Syntax Front.
Require Import gen.CodeFacts gen.CounterFacts.
Open Scope N_scope.

Inductive ord := Less | Equal | Greater.

Definition is_array (p : mparam) : bool :=
  match mp_shape p with PArr _ => true | PVal => false end.
Definition p_iface (p : mparam) : bool := is_miface (mp_ty p).

(* literal transcription of `impl Ord for Param` *)
Definition param_cmp (s o : mparam) : ord :=
  match mp_out s, mp_out o with
  | false, true =>
      match p_iface s, p_iface o with
      | true, true => if is_array s && negb (is_array o) then Greater else Less
      | false, _ => Less
      | true, false => Greater
      end
  | true, false =>
      match p_iface s, p_iface o with
      | true, true => if negb (is_array s) && is_array o then Less else Greater
      | false, true => Less
      | _, _ => Greater
      end
  | _, _ =>
      match p_iface s, p_iface o with
      | false, true => Less
      | true, true =>
          if is_array s && negb (is_array o) then Greater
          else if negb (is_array s) && is_array o then Less else Greater
      | true, false => Greater
      | false, false => Equal
      end
  end.

Definition param_lt (a b : mparam) : bool :=
  match param_cmp a b with Less => true | _ => false end.

(* the rank that `lt` turns out to compare (proved in proofs/PlanProofs.v) *)
Definition rank (p : mparam) : N :=
  match p_iface p, is_array p, mp_out p with
  | false, _, false => 0
  | false, _, true => 1
  | true, false, false => 2
  | true, false, true => 3
  | true, true, false => 4
  | true, true, true => 5
  end.

(* slice::sort is a stable sort driven by `lt` only; for a strict weak order the
   stable result is unique, so any stable insertion sort models it *)
Fixpoint ins (x : mparam) (l : list mparam) : list mparam :=
  match l with
  | [] => [x]
  | y :: r => if param_lt y x then y :: ins x r else x :: y :: r
  end.
Fixpoint sort_params (ps : list mparam) : list mparam :=
  match ps with
  | [] => []
  | x :: r => ins x (sort_params r)
  end.

(* ---- bundling ---- *)

Definition is_prim (t : mty) : bool := match t with MPrim _ => true | _ => false end.
Definition is_val (p : mparam) : bool := negb (is_array p).
Definition is_prim_value (p : mparam) : bool := is_val p && is_prim (mp_ty p).
Definition is_small_struct_value (p : mparam) : bool :=
  is_val p && is_mstruct (mp_ty p) && is_small (mp_ty p).
Definition bundleable (p : mparam) : bool := is_prim_value p || is_small_struct_value p.

Definition psize (p : mparam) : N := mty_size (mp_ty p).

(* sort_by(|a, b| b.cmp(a)) on sizes: stable, larger first *)
Fixpoint ins_desc (x : mparam) (l : list mparam) : list mparam :=
  match l with
  | [] => [x]
  | y :: r => if psize x <=? psize y then y :: ins_desc x r   (* equal: the earlier one stays first *)
              else x :: y :: r
  end.
(* elements are inserted from the right so that an equal element met later goes after:
   process the declaration list left to right, inserting each *after* its equals *)
Definition sort_desc (l : list mparam) : list mparam :=
  fold_left (fun acc x => ins_desc x acc) l [].

Definition packed (out : bool) (ps : list mparam) : list mparam :=
  sort_desc (filter (fun p => Bool.eqb (mp_out p) out && bundleable p) ps).

Definition packed_size (ms : list mparam) : N := sumN (map psize ms).

Inductive event :=
| EBundle (out : bool) (members : list mparam)
| EParam (p : mparam).

(* the `me` of functions.rs:125: Out, Array(Primitive(Uint8), None) *)
Definition bundle_marker : mparam := mkMP true (MPrim U8) (PArr None) "".

Fixpoint insert_first (pred : event -> bool) (x : event) (l : list event) : list event :=
  match l with
  | [] => [x]
  | y :: r => if pred y then x :: y :: r else y :: insert_first pred x r
  end.

Definition with_bundling (ps : list mparam) : list event :=
  let sorted := sort_params ps in
  let pin := packed false ps in
  let pout := packed true ps in
  let bi := (1 <? N.of_nat (List.length pin)) in
  let bo := (1 <? N.of_nat (List.length pout)) in
  let rest :=
    filter (fun x => negb (bo && mp_out x && bundleable x))
      (filter (fun x => negb (bi && negb (mp_out x) && bundleable x)) sorted) in
  let l1 := (if bi then [EBundle false pin] else []) ++ map EParam rest in
  if bo then
    insert_first (fun e => match e with
                           | EParam p => negb (param_lt p bundle_marker)
                           | EBundle _ _ => false
                           end) (EBundle true pout) l1
  else l1.

(* ---- Counter ---- *)

Record counts := mkCounts { nbi : N; nbo : N; noi : N; noo : N }.

Definition n_objs (t : mty) : N := N.of_nat (List.length (objects_model t)).

(* The pinned upstream Counter: u8 `+=` (Debug panics on overflow, Release wraps) and
   u8::try_from(x).unwrap(); no limit.  The repaired Counter (CounterFacts.counter_checked):
   saturating additions followed by a check of every class against the 4-bit limit.  A
   saturating u8 sum is at most the limit iff the exact sum is (saturation starts at 255), so
   the repaired variant is modelled with exact arithmetic and the final check. *)
Definition u8_add (md : mode) (a b : N) : outcome N :=
  if counter_checked then Ok (a + b)
  else if a + b <? 256 then Ok (a + b)
  else match md with Debug => Reject RCountLimit | Release => Ok ((a + b) mod 256) end.
Definition u8_try (x : N) : outcome N :=
  if counter_checked then Ok x else if x <? 256 then Ok x else Reject RCountLimit.
Definition within_limit (c : N) : bool := negb counter_checked || (c <=? counter_limit).

Record cstate := mkCS { cs : counts; hb_in : bool; hb_out : bool }.

Definition count_param (md : mode) (s : cstate) (p : mparam) : outcome cstate :=
  let c := cs s in
  let bump_b := fun (out : bool) =>
    if out then do v <- u8_add md (nbo c) 1; Ok (mkCS (mkCounts (nbi c) v (noi c) (noo c)) (hb_in s) (hb_out s))
    else do v <- u8_add md (nbi c) 1; Ok (mkCS (mkCounts v (nbo c) (noi c) (noo c)) (hb_in s) (hb_out s)) in
  let bump_o := fun (out : bool) (k : N) (s : cstate) =>
    let c := cs s in
    if out then do v <- u8_add md (noo c) k; Ok (mkCS (mkCounts (nbi c) (nbo c) (noi c) v) (hb_in s) (hb_out s))
    else do v <- u8_add md (noi c) k; Ok (mkCS (mkCounts (nbi c) (nbo c) v (noo c)) (hb_in s) (hb_out s)) in
  match mp_shape p with
  | PArr cnt =>
      match mp_ty p with
      | MIface _ =>
          match cnt with
          | Some k => do k' <- u8_try k; bump_o (mp_out p) k' s
          | None => Reject ROther          (* cnt.unwrap() *)
          end
      | MPrim _ | MStruct _ _ => bump_b (mp_out p)
      | MBuffer => Reject ROther           (* unreachable!() *)
      end
  | PVal =>
      match mp_ty p with
      | MBuffer => bump_b (mp_out p)
      | MPrim _ =>
          Ok (if mp_out p then mkCS c (hb_in s) true else mkCS c true (hb_out s))
      | MIface _ => bump_o (mp_out p) 1 s
      | MStruct _ _ =>
          if is_small (mp_ty p)
          then Ok (if mp_out p then mkCS c (hb_in s) true else mkCS c true (hb_out s))
          else do s' <- bump_b (mp_out p); do k <- u8_try (n_objs (mp_ty p)); bump_o (mp_out p) k s'
      end
  end.

Fixpoint count_params (md : mode) (s : cstate) (ps : list mparam) : outcome cstate :=
  match ps with
  | [] => Ok s
  | p :: r => do s' <- count_param md s p; count_params md s' r
  end.

Definition counter (md : mode) (ps : list mparam) : outcome counts :=
  do s <- count_params md (mkCS (mkCounts 0 0 0 0) false false) ps;
  let c := cs s in
  do bi <- u8_add md (nbi c) (if hb_in s then 1 else 0);
  do bo <- u8_add md (nbo c) (if hb_out s then 1 else 0);
  if within_limit bi && within_limit bo && within_limit (noi c) && within_limit (noo c)
  then Ok (mkCounts bi bo (noi c) (noo c)) else Reject RCountLimit.

(* ---- slot kinds the visitors emit per event (Appendix F of DESIGN.md) ---- *)

Inductive skind := BI | BO | OI | OO.
Definition skind_code (k : skind) : N := match k with BI => 0 | BO => 1 | OI => 2 | OO => 3 end.

Definition repeat_k (k : skind) (n : N) : list skind := repeat k (N.to_nat n).

Definition param_slots (p : mparam) : list skind :=
  let b := if mp_out p then BO else BI in
  let o := if mp_out p then OO else OI in
  match mp_shape p with
  | PArr cnt =>
      match mp_ty p with
      | MIface _ => repeat_k o (match cnt with Some k => k | None => 0 end)
      | _ => [b]
      end
  | PVal =>
      match mp_ty p with
      | MIface _ => [o]
      | MStruct _ _ => b :: repeat_k o (n_objs (mp_ty p))   (* object slots right after the buffer *)
      | _ => [b]
      end
  end.

Definition event_slots (e : event) : list skind :=
  match e with
  | EBundle out _ => [if out then BO else BI]
  | EParam p => param_slots p
  end.

Definition plan_slots (ps : list mparam) : list skind :=
  flat_map event_slots (with_bundling ps).

(* ---- natural (C / C++) layout of a bundle struct vs the packed layout the size literal and
        the Rust stub assume ---- *)
Fixpoint c_align_mty (t : mty) : N :=
  match t with
  | MPrim p => mir_prim_size p
  | MIface _ => 8
  | MBuffer => 1
  | MStruct _ fs =>
      (fix go (fs : list (string * mty * N)) : N :=
         match fs with [] => 1 | (_, ft, _) :: r => N.max (c_align_mty ft) (go r) end) fs
  end.

Definition round_up_n (o a : N) : N :=
  if a =? 0 then o else if o mod a =? 0 then o else o + (a - o mod a).

Fixpoint natural_offsets (ms : list mparam) (off : N) : list N :=
  match ms with
  | [] => []
  | m :: r => let o := round_up_n off (c_align_mty (mp_ty m)) in o :: natural_offsets r (o + psize m)
  end.
Fixpoint packed_offsets (ms : list mparam) (off : N) : list N :=
  match ms with
  | [] => []
  | m :: r => off :: packed_offsets r (off + psize m)
  end.

Definition bundle_padded (ms : list mparam) : bool :=
  negb (list_eqb N.eqb (natural_offsets ms 0) (packed_offsets ms 0)).

Definition has_padded_bundle (ps : list mparam) : bool :=
  ((1 <? N.of_nat (List.length (packed false ps))) && bundle_padded (packed false ps)) ||
  ((1 <? N.of_nat (List.length (packed true ps))) && bundle_padded (packed true ps)).
