(* Driver.v — model of the effects of idlc/src/main.rs on the output path, and of the output
   file names of the multi-file generators (Rust: generator.rs:19-72, Java: generator.rs:19-91).
   The order of effects is read from gen/DriverFacts.v (regenerated from main.rs). *)
Require Import Base Syntax Front.
Require Import gen.DriverFacts.
Open Scope string_scope.
Open Scope list_scope.

Definition fsys := list (string * string).          (* path -> content *)

Inductive effect := EOpen (p : string) | EWrite (p : string) (bytes : string).

Definition fs_get (fs : fsys) (p : string) : option string := alookup p fs.
Fixpoint fs_set (fs : fsys) (p c : string) : fsys :=
  match fs with
  | [] => [(p, c)]
  | (q, d) :: r => if String.eqb p q then (q, c) :: r else (q, d) :: fs_set r p c
  end.

Fixpoint skipn_str (n : nat) (s : string) : string :=
  match n, s with
  | O, _ => s
  | S k, String _ r => skipn_str k r
  | S _, EmptyString => EmptyString
  end.

(* an open with create+write(+truncate); a write appends at the file's write position, which
   for a freshly truncated file is its end (without truncation old bytes beyond what is
   written survive) *)
Definition apply_effect (st : fsys * list (string * nat)) (e : effect) : fsys * list (string * nat) :=
  let '(fs, pos) := st in
  match e with
  | EOpen p =>
      let old := match fs_get fs p with Some c => c | None => "" end in
      (fs_set fs p (if open_truncates then "" else old), (p, O) :: pos)
  | EWrite p bytes =>
      let old := match fs_get fs p with Some c => c | None => "" end in
      let at_ := match alookup p pos with Some n => n | None => O end in
      let head := substring 0 at_ old in
      let new := (head ++ bytes ++ skipn_str (at_ + String.length bytes) old)%string in
      (fs_set fs p new, (p, (at_ + String.length bytes)%nat) :: pos)
  end.

Definition apply_effects (fs : fsys) (es : list effect) : fsys :=
  fst (fold_left apply_effect es (fs, [])).

(* the driver: [validated] = every pass up to and including the backend's generation
   succeeded; [files] = what the generator returned (one entry for C / C++) *)
Definition file_effects (marking : string) (f : string * string) : list effect :=
  [EOpen (fst f)] ++
  (if marking_before_content then [EWrite (fst f) marking; EWrite (fst f) (snd f)]
   else [EWrite (fst f) (snd f); EWrite (fst f) marking]).

Definition driver_effects (validated : bool) (marking : string) (files : list (string * string)) : list effect :=
  if writes_after_validation && content_before_open then
    if validated then flat_map (file_effects marking) files else []
  else
    (* an open hoisted above validation or generation happens regardless of the verdict *)
    map (fun f => EOpen (fst f)) files ++
    (if validated then flat_map (file_effects marking) files else []).

(* ---- output names of the Rust generator ---- *)
Definition lower_ascii (c : ascii) : ascii :=
  let n := nat_of_ascii c in
  if (Nat.leb 65 n && Nat.leb n 90)%bool then ascii_of_nat (n + 32) else c.
Fixpoint lower (s : string) : string :=
  match s with EmptyString => EmptyString | String c r => String (lower_ascii c) (lower r) end.

Definition has_file_level_content (mir : list mtop) : bool :=
  existsb (fun t => match t with MTConst _ | MTStruct _ => true | _ => false end) mir.

(* HashMap insert: a later interface with the same key replaces the earlier one *)
Definition rust_names (stem : string) (mir : list mtop) : list string :=
  let base := (lower stem ++ ".rs")%string in
  let ifs := flat_map (fun t => match t with MTIface i => [(lower (mi_name i) ++ ".rs")%string] | _ => [] end) mir in
  let others := filter (fun n => negb (String.eqb n base)) ifs in
  let base_used := has_file_level_content mir || existsb (String.eqb base) ifs in
  (if base_used then [base] else []) ++ nodup string_dec others.

(* the repaired generator inspects the result of the insert: a second interface with the same
   file name (other than the file-level module) is an error; [checked] is the regenerated
   fact rust_collision_rejected *)
Definition rust_iface_files (mir : list mtop) : list string :=
  flat_map (fun t => match t with MTIface i => [(lower (mi_name i) ++ ".rs")%string] | _ => [] end) mir.
Definition rust_others (stem : string) (mir : list mtop) : list string :=
  filter (fun n => negb (String.eqb n (lower stem ++ ".rs")%string)) (rust_iface_files mir).
Definition rust_generate_gen (checked : bool) (stem : string) (mir : list mtop) : option (list string) :=
  if checked && negb (nodup_str (rust_others stem mir)) then None else Some (rust_names stem mir).
Definition rust_generate := rust_generate_gen rust_collision_rejected.

Definition java_names (stem : string) (mir : list mtop) : list string :=
  let base := (stem ++ ".java")%string in
  let ifs := flat_map (fun t => match t with MTIface i => [(mi_name i ++ ".java")%string] | _ => [] end) mir in
  base :: nodup string_dec (filter (fun n => negb (String.eqb n base)) ifs).
