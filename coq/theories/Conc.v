(* Conc.v — interleaving model of one generated Rust object shared by any number of client
   threads: handle counts (wrapper.rs retain/release), the Mutex around the implementation,
   and the generated invoke arm (lock, body, unlock).  The shape of the steps is selected by
   gen/ConcFacts.v, regenerated from tests/src/object/wrapper.rs and from the emitter of the
   Rust skeleton on every run.  Sequentially consistent interleavings; definitions only. *)
Require Import Base.
Require Import gen.ConcFacts.
Open Scope nat_scope.

(* WaitLook / InLook: a client thread inside the generated downcast_concrete (wrapper.rs): it takes
   the same lock and runs the caller's closure on a shared reference to the implementation *)
Inductive pc := Idle | Waiting | InBody (snap : nat) | WaitLook | InLook (seen : nat).
Record thr := mkT { owns : nat; at_ : pc }.

Record st := mkSt' {
  refs : nat;                 (* Wrapper::refs *)
  lock : option nat;          (* owner of Wrapper::inner's mutex *)
  freed : bool;               (* Box::from_raw(wrapper) dropped *)
  drops : nat;                (* how often the implementation value was dropped *)
  impl : nat;                 (* the implementation's state: number of effects applied *)
  completed : nat;            (* invocations that returned *)
  ths : list thr
}.

Definition get (l : list thr) (i : nat) : thr := nth i l (mkT 0 Idle).
Fixpoint upd (l : list thr) (i : nat) (t : thr) : list thr :=
  match l, i with
  | [], _ => []
  | _ :: r, O => t :: r
  | x :: r, S k => x :: upd r k t
  end.

Definition idle (p : pc) : bool := match p with Idle => true | _ => false end.

(* a handle that an in-flight call borrows cannot be given away or dropped *)
Definition can_give (t : thr) : Prop := (idle (at_ t) = true /\ 1 <= owns t) \/ 2 <= owns t.

Inductive step : st -> st -> Prop :=
(* Object::clone -> retain: one atomic read-modify-write (retain_is_rmw) *)
| SClone s i : i < List.length (ths s) -> 1 <= owns (get (ths s) i) -> retain_is_rmw = true ->
    step s (mkSt' (S (refs s)) (lock s) (freed s) (drops s) (impl s) (completed s)
                  (upd (ths s) i (mkT (S (owns (get (ths s) i))) (at_ (get (ths s) i)))))
(* Drop for Object -> release: atomic fetch_sub; frees when the previous value was release_frees_on *)
| SDrop s i : i < List.length (ths s) -> can_give (get (ths s) i) -> release_is_rmw = true ->
    step s (mkSt' (refs s - 1) (lock s)
                  (if Nat.eqb (refs s) release_frees_on then true else freed s)
                  (if Nat.eqb (refs s) release_frees_on then S (drops s) else drops s)
                  (impl s) (completed s)
                  (upd (ths s) i (mkT (owns (get (ths s) i) - 1) (at_ (get (ths s) i)))))
(* a handle moves to another thread (Send) *)
| STransfer s i j : i < List.length (ths s) -> j < List.length (ths s) -> i <> j -> can_give (get (ths s) i) ->
    step s (mkSt' (refs s) (lock s) (freed s) (drops s) (impl s) (completed s)
                  (upd (upd (ths s) i (mkT (owns (get (ths s) i) - 1) (at_ (get (ths s) i))))
                       j (mkT (S (owns (get (ths s) j))) (at_ (get (ths s) j)))))
(* a client thread starts an invocation on a handle it holds *)
| SCall s i : i < List.length (ths s) -> at_ (get (ths s) i) = Idle -> 1 <= owns (get (ths s) i) ->
    step s (mkSt' (refs s) (lock s) (freed s) (drops s) (impl s) (completed s)
                  (upd (ths s) i (mkT (owns (get (ths s) i)) Waiting)))
(* the generated arm: cx.inner.lock() before the method body (arm_locks_before_call) *)
| SAcq s i : i < List.length (ths s) -> at_ (get (ths s) i) = Waiting ->
    (arm_locks_before_call = true -> lock s = None) ->
    step s (mkSt' (refs s) (if arm_locks_before_call then Some i else lock s) (freed s) (drops s) (impl s) (completed s)
                  (upd (ths s) i (mkT (owns (get (ths s) i)) (InBody (impl s)))))
(* the body applies its effect to the state it saw and returns; the guard is dropped after *)
| SRet s i snap : i < List.length (ths s) -> at_ (get (ths s) i) = InBody snap ->
    step s (mkSt' (refs s) (if arm_holds_lock_during_call then None else lock s) (freed s) (drops s)
                  (S snap) (S (completed s))
                  (upd (ths s) i (mkT (owns (get (ths s) i)) Idle)))
(* downcast_concrete on a handle the thread holds: lock, run the caller's closure on &impl, unlock
   after the closure returned (downcast_closure_under_lock); the closure changes nothing *)
| SLook s i : i < List.length (ths s) -> at_ (get (ths s) i) = Idle -> 1 <= owns (get (ths s) i) ->
    step s (mkSt' (refs s) (lock s) (freed s) (drops s) (impl s) (completed s)
                  (upd (ths s) i (mkT (owns (get (ths s) i)) WaitLook)))
| SLookAcq s i : i < List.length (ths s) -> at_ (get (ths s) i) = WaitLook -> lock s = None ->
    step s (mkSt' (refs s) (if downcast_closure_under_lock then Some i else None) (freed s) (drops s) (impl s) (completed s)
                  (upd (ths s) i (mkT (owns (get (ths s) i)) (InLook (impl s)))))
| SLookEnd s i seen : i < List.length (ths s) -> at_ (get (ths s) i) = InLook seen ->
    step s (mkSt' (refs s) (if downcast_closure_under_lock then None else lock s) (freed s) (drops s) (impl s) (completed s)
                  (upd (ths s) i (mkT (owns (get (ths s) i)) Idle))).

Definition init (n : nat) : st :=
  mkSt' 1 None false 0 0 0 (mkT 1 Idle :: repeat (mkT 0 Idle) n).

Inductive reachable (n : nat) : st -> Prop :=
| r_init : reachable n (init n)
| r_step s s' : reachable n s -> step s s' -> reachable n s'.
