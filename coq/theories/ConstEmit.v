(* ConstEmit.v — the text each backend writes for an integer constant since the emitters write the
   VALUE (idlc_codegen_c/src/types.rs const_expression, idlc_codegen_java/src/globals.rs
   const_literal, idlc_codegen_rust/src/globals.rs emit_const), and how the target language reads
   that text.  Definitions only; the correspondence compares show_cexpr / java_const_literal /
   rust_const_literal with the text found in the generated files. *)
Require Import Base Syntax Consts.
From Coq Require Import Decimal DecimalString.
Open Scope string_scope.

(* i128::to_string *)
Definition show_N (n : N) : string := NilEmpty.string_of_uint (N.to_uint n).
Definition show_Z (z : Z) : string :=
  match z with
  | Z0 => "0"
  | Zpos p => show_N (Npos p)
  | Zneg p => "-" ++ show_N (Npos p)
  end.

(* what both emitters compute first: strip one '-', then "0x" -> from_str_radix(.., 16), else
   parse::<i128>(); None when that fails (fraction, overflow of i128).  For the literals the grammar
   admits (no '+', no second sign) this is the whole behaviour. *)
Definition i128_max : N := (2 ^ 127 - 1)%N.
Definition lit_magnitude (raw : string) : option (bool * N) :=
  let neg := starts_with "-" raw in
  let body := if neg then skip_str 1 raw else raw in
  let r := if starts_with "0x" body then digits 16 (skip_str 2 body) else digits 10 body in
  match r with
  | Some m => if (m <=? i128_max)%N then Some (neg, m) else None
  | None => None
  end.
Definition signed_val (neg : bool) (m : N) : Z := if neg then (- Z.of_N m)%Z else Z.of_N m.

(* ---- C and C++ ---- *)
Definition c_wrapper (p : prim) : string :=
  match p with
  | U8 => "UINT8_C" | U16 => "UINT16_C" | U32 => "UINT32_C" | U64 => "UINT64_C"
  | I8 => "INT8_C" | I16 => "INT16_C" | I32 => "INT32_C" | I64 => "INT64_C"
  | F32 => "(float)" | F64 => "(double)"
  end.

Inductive cexpr :=
| CWrap (w arg : string)             (* W(arg) *)
| CWrapMinus1 (w arg : string).      (* (W(arg) - 1) *)

Definition c_const_expr (p : prim) (raw : string) : cexpr :=
  let w := c_wrapper p in
  match int_bits p with
  | None => CWrap w raw
  | Some _ =>
      match lit_magnitude raw with
      | Some (neg, m) =>
          if (neg && (m =? 2 ^ 63)%N)%bool then CWrapMinus1 w (show_Z (- 2 ^ 63 + 1))
          else CWrap w (show_Z (signed_val neg m))
      | None => CWrap w raw
      end
  end.

Definition show_cexpr (e : cexpr) : string :=
  match e with
  | CWrap w a => w ++ "(" ++ a ++ ")"
  | CWrapMinus1 w a => "(" ++ w ++ "(" ++ a ++ ") - 1)"
  end.

(* How a C compiler reads W(arg) under -Wall -Wextra -Werror: arg is an optional minus applied to an
   integer literal (decimal; a leading 0 makes it octal; 0x hexadecimal).  The UINTn_C macros make
   the literal unsigned (it must fit 64 bits); the INTn_C macros leave it signed: a literal above
   2^63-1 has no signed type (gcc: "integer constant is so large that it is unsigned", an error
   under -Werror).  None = not accepted.  A minus under an unsigned macro would wrap; the emitters
   never write one for an accepted constant and the reading gives None there. *)
Definition c_unsigned (p : prim) : bool := match p with U8 | U16 | U32 | U64 => true | _ => false end.
Definition c_read_arg (unsigned : bool) (a : string) : option Z :=
  match eval_c_int a with
  | Some v =>
      if unsigned then (if ((0 <=? v) && (v <=? 2 ^ 64 - 1))%Z then Some v else None)
      else (if (Z.abs v <=? 2 ^ 63 - 1)%Z then Some v else None)
  | None => None
  end.
Definition eval_cexpr (p : prim) (e : cexpr) : option Z :=
  match e with
  | CWrap _ a => c_read_arg (c_unsigned p) a
  | CWrapMinus1 _ a => match c_read_arg (c_unsigned p) a with Some v => Some (v - 1)%Z | None => None end
  end.

(* ---- Java ---- *)
(* `value as i8/i32/i64`: the two's-complement carrier of the same width; `as u16` for char *)
Definition wrap_signed (bits : N) (v : Z) : Z :=
  let m := (v mod 2 ^ Z.of_N bits)%Z in
  if (m <? 2 ^ (Z.of_N bits - 1))%Z then m else (m - 2 ^ Z.of_N bits)%Z.

Fixpoint has_char (f : ascii -> bool) (s : string) : bool :=
  match s with EmptyString => false | String c r => (f c || has_char f r)%bool end.
Definition is_one_of (l : list ascii) (c : ascii) : bool := existsb (Ascii.eqb c) l.

Definition java_const_literal (p : prim) (raw : string) : string :=
  match int_bits p with
  | None =>
      match p with
      | F32 => if (negb (has_char (is_one_of ["x"; "X"]%char) raw) && has_char (is_one_of ["."; "e"; "E"]%char) raw)%bool
               then raw ++ "f" else raw
      | _ => raw
      end
  | Some (_, bits) =>
      match lit_magnitude raw with
      | None => raw
      | Some (neg, m) =>
          let v := signed_val neg m in
          if (bits =? 8)%N then show_Z (wrap_signed 8 v)
          else if (bits =? 16)%N then show_Z (v mod 2 ^ 16)%Z
          else if (bits =? 32)%N then show_Z (wrap_signed 32 v)
          else show_Z (wrap_signed 64 v) ++ "L"
      end
  end.

(* How javac reads `ty X = text;`: byte, char, int take an int literal that must be in the
   carrier's range (byte -128..127, char 0..65535, int); long takes a literal with the L suffix.
   A leading 0 is octal as in C. *)
Fixpoint strip_L (s : string) : option string :=
  match s with
  | EmptyString => None
  | String "L" EmptyString => Some EmptyString
  | String c r => match strip_L r with Some r' => Some (String c r') | None => None end
  end.
Definition java_read (p : prim) (text : string) : option Z :=
  match int_bits p with
  | None => None
  | Some (_, bits) =>
      if (bits =? 64)%N then
        match strip_L text with
        | Some body => match eval_c_int body with
                       | Some v => if ((- 2 ^ 63 <=? v) && (v <=? 2 ^ 63 - 1))%Z then Some v else None
                       | None => None end
        | None => None
        end
      else
        match eval_c_int text with
        | Some v =>
            let ok := if (bits =? 8)%N then ((-128 <=? v) && (v <=? 127))%Z
                      else if (bits =? 16)%N then ((0 <=? v) && (v <=? 65535))%Z
                      else ((- 2 ^ 31 <=? v) && (v <=? 2 ^ 31 - 1))%Z in
            if ok then Some v else None
        | None => None
        end
  end.

(* ---- Rust: the IDL spelling is kept (Rust reads leading zeros as decimal and negates a
   hexadecimal literal as a signed value); a float without fraction or exponent gets ".0" ---- *)
Fixpoint all_chars (f : ascii -> bool) (s : string) : bool :=
  match s with EmptyString => true | String c r => (f c && all_chars f r)%bool end.
Definition rust_const_literal (p : prim) (raw : string) : string :=
  match int_bits p with
  | Some _ => raw
  | None => if all_chars (fun c => (is_digit c || Ascii.eqb c "-")%bool) raw then raw ++ ".0" else raw
  end.
