(* PlanObs.v — observations (sx) of the plan, mirroring harness/src/plan.rs. *)
Require Import Base Syntax Front Obs Plan.
Open Scope N_scope.

Definition sx_oty (t : mty) : sx :=
  match t with MIface (Some n) => SL [SS n] | _ => SL [] end.

Definition sx_objs (t : mty) : sx :=
  SL (map (fun o => SL [SL (map SS (fst o));
                        match snd o with None => SL [] | Some n => SL [SS n] end])
          (objects_model t)).

Definition dir_code (p : mparam) (base : Z) : sx := SA (if mp_out p then base + 10 else base)%Z.

Definition sx_param_event (p : mparam) : sx :=
  let nm := SS (mp_name p) in
  match mp_shape p with
  | PArr cnt =>
      match mp_ty p with
      | MPrim q => SL [dir_code p 0; nm; sx_prim q]
      | MIface _ => SL [dir_code p 8; nm; sx_oty (mp_ty p);
                        SN (match cnt with Some k => k | None => 0 end)]
      | MStruct sn _ => SL [dir_code p 2; nm; SS sn; SN (mty_size (mp_ty p))]
      | MBuffer => SL [SA (-1)]
      end
  | PVal =>
      match mp_ty p with
      | MBuffer => SL [dir_code p 1; nm]
      | MPrim q => SL [dir_code p 3; nm; sx_prim q]
      | MIface _ => SL [dir_code p 7; nm; sx_oty (mp_ty p)]
      | MStruct sn _ =>
          SL [dir_code p (if is_small (mp_ty p) then 6 else 5); nm; SS sn;
              SN (mty_size (mp_ty p)); sx_objs (mp_ty p)]
      end
  end.

Definition sx_event (e : event) : sx :=
  match e with
  | EBundle out ms =>
      SL [SA (if out then 14 else 4);
          SL (map (fun m => SL [SS (mp_name m); sx_mty (mp_ty m); SN (psize m)]) ms);
          SN (packed_size ms)]
  | EParam p => sx_param_event p
  end.

Definition sx_counts (o : outcome counts) : sx :=
  match o with
  | Ok c => SL [SN (nbi c); SN (nbo c); SN (noi c); SN (noo c)]
  | _ => SL []
  end.

Definition sx_plan (f : mfunc) : sx :=
  SL [SS (mf_name f); SL (map (fun p => SS (mp_name p)) (sort_params (mf_params f)));
      sx_counts (counter Debug (mf_params f));
      SL (map sx_event (with_bundling (mf_params f)))].

Definition sx_plans (mir : list mtop) : sx :=
  SL (flat_map (fun t => match t with
     | MTIface top =>
         flat_map (fun from => map (fun f => SL [SS (mi_name top); SS (mi_name from); sx_plan f])
                                   (mnode_funcs (mi_nodes from))) (mi_chain top)
     | _ => [] end) mir).
