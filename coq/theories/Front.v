(* Front.v — model of the front end after include loading:
   symbol table (idl_store.rs:155-191), Functions pass (functions.rs),
   Cycles pass (cycles.rs, graph.rs), StructVerifier (struct_verifier.rs),
   parse_to_mir (mir.rs:440-665), InterfaceVerifier (interface_verifier.rs).
   Definitions only; proofs live in proofs/. *)
Require Import Base Syntax.
Require Import gen.CodeFacts gen.CounterFacts.

(* ------------------------------------------------------------------ *)
(* Symbol table                                                        *)

Record symtab := mkSt {
  st_structs : list (string * sdef);     (* Symbol::Struct — includes object structs *)
  st_ifaces  : list (string * idef);     (* Symbol::Interface *)
  st_consts  : list string               (* Symbol::Const *)
}.
Definition st_empty := mkSt [] [] [].

(* ast.rs:66 Struct::new_object *)
Definition object_struct (n : string) : sdef :=
  mkS n [mkF "invoke" (TPrim U64) 1; mkF "context" (TPrim U64) 1].

Definition has_key {A} (k : string) (l : list (string * A)) : bool :=
  match alookup k l with Some _ => true | None => false end.

(* one node of gather_symbols_from_ast; the assert_eq!(.., None) is the reject *)
Definition gather_node0 (st : symtab) (n : node) : outcome symtab :=
  match n with
  | NStruct s =>
      if has_key (s_name s) (st_structs st) then Reject RDupSymbol
      else Ok (mkSt ((s_name s, s) :: st_structs st) (st_ifaces st) (st_consts st))
  | NIface i =>
      if has_key (i_name i) (st_structs st) then Reject RDupSymbol
      else if has_key (i_name i) (st_ifaces st) then Reject RDupSymbol
      else Ok (mkSt ((i_name i, object_struct (i_name i)) :: st_structs st)
                    ((i_name i, i) :: st_ifaces st) (st_consts st))
  | NConst c =>
      if mem_str (c_name c) (st_consts st) then Reject RDupSymbol
      else Ok (mkSt (st_structs st) (st_ifaces st) (c_name c :: st_consts st))
  | NInclude _ => Ok st
  end.

(* the repaired table also refuses a name that the other kind of symbol already uses
   (assert!(!taken_by_other_kind)); [one_ns] is the regenerated fact symbols_one_namespace *)
Definition cross_kind (st : symtab) (n : node) : bool :=
  match n with
  | NStruct s => mem_str (s_name s) (st_consts st)
  | NIface i => mem_str (i_name i) (st_consts st)
  | NConst c => has_key (c_name c) (st_structs st)
  | NInclude _ => false
  end.

Definition gather_node_gen (one_ns : bool) (st : symtab) (n : node) : outcome symtab :=
  if one_ns && cross_kind st n then Reject RDupSymbol else gather_node0 st n.

Fixpoint gather_nodes_gen (one_ns : bool) (st : symtab) (ns : list node) : outcome symtab :=
  match ns with
  | [] => Ok st
  | n :: ns' => do st' <- gather_node_gen one_ns st n; gather_nodes_gen one_ns st' ns'
  end.

Fixpoint gather_files_gen (one_ns : bool) (st : symtab) (fs : list ast) : outcome symtab :=
  match fs with
  | [] => Ok st
  | a :: fs' => do st' <- gather_nodes_gen one_ns st (a_nodes a); gather_files_gen one_ns st' fs'
  end.

Definition gather_files := gather_files_gen symbols_one_namespace.

Definition struct_lookup (st : symtab) (n : string) := alookup n (st_structs st).
Definition iface_lookup (st : symtab) (n : string) := alookup n (st_ifaces st).

(* ------------------------------------------------------------------ *)
(* Functions pass: duplicate parameters, main file only                *)

Definition func_params_ok (f : func) : bool :=
  nodup_str (map p_name (f_params f)).

Definition functions_pass (main : ast) : outcome unit :=
  if forallb (fun i => forallb func_params_ok (iface_funcs i)) (ast_ifaces main)
  then Ok tt else Reject RDupParam.

(* ------------------------------------------------------------------ *)
(* Cycles pass                                                          *)

(* interface chain from [i] (self first); rejects unresolved bases and
   repeated names.  Fuel = number of known interfaces + 1. *)
Fixpoint iface_chain (fuel : nat) (st : symtab) (seen : list string) (i : idef)
  : outcome (list idef) :=
  match fuel with
  | O => Reject RTypeCycle
  | S f =>
      if mem_str (i_name i) seen then Reject RTypeCycle else
      match i_base i with
      | None => Ok [i]
      | Some b =>
          match iface_lookup st b with
          | None => Reject RUnresolved
          | Some bi => do rest <- iface_chain f st (i_name i :: seen) bi; Ok (i :: rest)
          end
      end
  end.

Definition iface_fuel (st : symtab) : nat := S (List.length (st_ifaces st)).

Fixpoint ifaces_acyclic (st : symtab) (is_ : list idef) : outcome unit :=
  match is_ with
  | [] => Ok tt
  | i :: r => do _ <- iface_chain (iface_fuel st) st [] i; ifaces_acyclic st r
  end.

Definition custom_fields (s : sdef) : list string :=
  flat_map (fun f => match sf_ty f with TCustom n => [n] | _ => [] end) (s_fields s).

(* DFS post-order over the struct containment graph.  [path] = branch,
   [done] = already emitted (dependencies first, newest first). *)
Fixpoint struct_dfs (fuel : nat) (st : symtab) (path done : list string) (n : string)
  : outcome (list string) :=
  match fuel with
  | O => OutOfFuel
  | S f =>
      if mem_str n path then Reject RTypeCycle else
      if mem_str n done then Ok done else
      match struct_lookup st n with
      | None => Reject RUnresolved
      | Some s =>
          do done' <-
            (fix go (cs : list string) (done : list string) : outcome (list string) :=
               match cs with
               | [] => Ok done
               | c :: cs' => do d <- struct_dfs f st (n :: path) done c; go cs' d
               end) (custom_fields s) done;
          Ok (n :: done')
      end
  end.

Definition struct_fuel (st : symtab) : nat := S (List.length (st_structs st)).

Fixpoint struct_order (st : symtab) (done : list string) (ss : list sdef)
  : outcome (list string) :=
  match ss with
  | [] => Ok done
  | s :: r => do d <- struct_dfs (struct_fuel st) st [] done (s_name s); struct_order st d r
  end.

(* dependencies first *)
Definition cycles_pass (st : symtab) (main : ast) : outcome (list string) :=
  do _ <- ifaces_acyclic st (ast_ifaces main);
  do d <- struct_order st [] (ast_structs main);
  Ok (rev d).

(* ------------------------------------------------------------------ *)
(* StructVerifier                                                       *)

Definition ast_prim_size (p : prim) : N := prim_size p.
Definition ast_prim_align (p : prim) : N := prim_align p.

Definition field_size_align (store : list (string * (N * N))) (t : aty)
  : outcome (N * N) :=
  match t with
  | TPrim p => Ok (ast_prim_size p, ast_prim_align p)
  | TCustom c => match alookup c store with Some x => Ok x | None => Reject ROther end
  | TIface => Ok (iface_size, iface_align)
  | TBuffer => Reject ROther
  end.

(* the per-struct loop of struct_verifier.rs:44-95; usize arithmetic:
   Debug panics on overflow, Release wraps (mod 2^64) *)
Definition usize_max : N := 18446744073709551616.
Definition uop (md : mode) (site : N) (v : N) : outcome N :=
  if v <? usize_max then Ok v
  else if struct_size_checked then Reject ROverflow          (* checked_mul / checked_add: an error in both profiles *)
  else match md with Debug => Reject ROverflow | Release => UB site end.

Fixpoint verify_fields (md : mode) (store : list (string * (N * N)))
         (seen : list string) (fs : list sfield) (size al : N) : outcome (N * N) :=
  match fs with
  | [] =>
      if al =? 0 then Reject ROther
      else if size mod al =? 0 then Ok (size, al) else Reject RMisalignedSize
  | f :: fs' =>
      if mem_str (sf_name f) seen then Reject RDupField else
      do sa <- field_size_align store (sf_ty f);
      let '(isz, ial) := sa in
      if ial =? 0 then Reject ROther else
      if negb (size mod ial =? 0) then Reject RMisalignedMember else
      do prod <- uop md 1 (isz * sf_cnt f);
      do size' <- uop md 2 (size + prod);
      verify_fields md store (sf_name f :: seen) fs' size' (N.max al ial)
  end.

Fixpoint verify_structs (md : mode) (st : symtab) (store : list (string * (N * N)))
         (order : list string) : outcome (list (string * (N * N))) :=
  match order with
  | [] => Ok store
  | n :: r =>
      match struct_lookup st n with
      | None => Reject ROther
      | Some s =>
          do sa <- verify_fields md store [] (s_fields s) 0 0;
          verify_structs md st ((n, sa) :: store) r
      end
  end.

(* ------------------------------------------------------------------ *)
(* MIR                                                                  *)

Inductive mty :=
| MBuffer | MPrim (p : prim) | MIface (n : option string)
| MStruct (name : string) (fields : list (string * mty * N)).

Definition mir_prim_size (p : prim) : N := mir_prim_size_tbl p.

(* StructField::size / StructInner::size (mir.rs:119-131,185), unbounded N;
   the machine wrap is handled where the property is about it (C16) *)
Fixpoint mty_size (t : mty) : N :=
  match t with
  | MPrim p => mir_prim_size p
  | MIface _ => mir_iface_field_size
  | MStruct _ fs =>
      (fix go (fs : list (string * mty * N)) : N :=
         match fs with
         | [] => 0
         | (_, ft, c) :: r => mty_size ft * c + go r
         end) fs
  | MBuffer => 0
  end.

Definition is_small (t : mty) : bool := mty_size t <=? bundled_size_max.

Record mparam := mkMP { mp_out : bool; mp_ty : mty; mp_shape : pshape; mp_name : string }.
Record mfunc := mkMF { mf_name : string; mf_params : list mparam; mf_id : N;
                       mf_optional : bool; mf_doc : option string }.
Inductive mnode := MConstN (c : cdef) | MFuncN (f : mfunc) | MErrorN (n : string) (v : Z).
(* Interface with its base chain nested, as mir::Interface *)
Inductive miface := MI (name : string) (base : option miface) (nodes : list mnode).

Definition mi_name (i : miface) := match i with MI n _ _ => n end.
Definition mi_base (i : miface) := match i with MI _ b _ => b end.
Definition mi_nodes (i : miface) := match i with MI _ _ ns => ns end.

(* Type::new (mir.rs:627-665).  Fuel bounds struct nesting depth. *)
Fixpoint resolve_ty (fuel : nat) (st : symtab) (t : aty) : outcome mty :=
  match t with
  | TBuffer => Ok MBuffer
  | TPrim p => Ok (MPrim p)
  | TIface => Ok (MIface None)
  | TCustom n =>
      match iface_lookup st n with
      | Some i => Ok (MIface (Some (i_name i)))
      | None =>
          match struct_lookup st n with
          | None => Reject RUnresolved
          | Some s =>
              match fuel with
              | O => OutOfFuel
              | S f =>
                  do fs <-
                    (fix go (l : list sfield) : outcome (list (string * mty * N)) :=
                       match l with
                       | [] => Ok []
                       | x :: r =>
                           do t' <- resolve_ty f st (sf_ty x);
                           do r' <- go r;
                           Ok ((sf_name x, t', sf_cnt x) :: r')
                       end) (s_fields s);
                  Ok (MStruct (s_name s) fs)
              end
          end
      end
  end.

(* Struct::from (mir.rs) computes the packed size of a struct type when the parameter is lowered,
   in usize.  Since the repair (fact mir_size_checked: checked_mul / checked_add with a diagnostic)
   a size that does not fit is an error in both profiles.  All terms are non-negative, so some
   intermediate product or sum overflows exactly when the total does.  (The pinned code multiplied
   and added unchecked: debug builds panicked, release builds wrapped; with the fact false the model
   keeps the unbounded size and the difference shows in the debug/release runs of the C16 check.) *)
Definition resolve_param_gen (checked : bool) (fuel : nat) (st : symtab) (p : param) : outcome mparam :=
  do t <- resolve_ty fuel st (p_ty p);
  if (checked && (usize_max <=? mty_size t))%bool then Reject ROverflow
  else Ok (mkMP (p_out p) t (p_shape p) (p_name p)).
Definition resolve_param := resolve_param_gen mir_size_checked.

Fixpoint resolve_params (fuel : nat) (st : symtab) (ps : list param)
  : outcome (list mparam) :=
  match ps with
  | [] => Ok []
  | p :: r => do p' <- resolve_param fuel st p; do r' <- resolve_params fuel st r;
              Ok (p' :: r')
  end.

(* the member loop of parse_interface (mir.rs:494-532): counters threaded *)
Fixpoint number_nodes (fuel : nat) (st : symtab) (ns : list inode) (ec : Z) (oc : N)
  : outcome (list mnode * Z * N) :=
  match ns with
  | [] => Ok ([], ec, oc)
  | IConst c :: r =>
      do x <- number_nodes fuel st r ec oc;
      let '(ms, ec', oc') := x in Ok (MConstN c :: ms, ec', oc')
  | IError e :: r =>
      if (2147483647 <=? ec)%Z then Reject ROther else
      do x <- number_nodes fuel st r (ec + 1)%Z oc;
      let '(ms, ec', oc') := x in Ok (MErrorN e ec :: ms, ec', oc')
  | IFunc f :: r =>
      do ps <- resolve_params fuel st (f_params f);
      if max_op_code <? oc then Reject ROpLimit else
      do x <- number_nodes fuel st r ec (oc + 1);
      let '(ms, ec', oc') := x in
      Ok (MFuncN (mkMF (f_name f) ps oc (f_optional f) (f_doc f)) :: ms, ec', oc')
  end.

(* parse_interface: base first (sharing the counters), then own members *)
Fixpoint number_iface (ifuel sfuel : nat) (st : symtab) (i : idef) (ec : Z) (oc : N)
  : outcome (miface * Z * N) :=
  match ifuel with
  | O => OutOfFuel
  | S f =>
      do b <-
        match i_base i with
        | None => Ok (None, ec, oc)
        | Some bn =>
            match iface_lookup st bn with
            | None => Reject RUnresolved
            | Some bi =>
                do x <- number_iface f sfuel st bi ec oc;
                let '(mb, ec', oc') := x in Ok (Some mb, ec', oc')
            end
        end;
      let '(mb, ec1, oc1) := b in
      do x <- number_nodes sfuel st (i_nodes i) ec1 oc1;
      let '(ms, ec2, oc2) := x in
      Ok (MI (i_name i) mb ms, ec2, oc2)
  end.

Definition error_code_start_z : Z := Z.of_N error_code_start.

Definition number_top (st : symtab) (i : idef) : outcome miface :=
  do x <- number_iface (iface_fuel st) (struct_fuel st) st i error_code_start_z 0;
  let '(mi, _, _) := x in Ok mi.

Inductive mtop :=
| MTInclude (p : string) | MTConst (c : cdef)
| MTStruct (s : mty) | MTIface (i : miface).

(* parse_struct (top-level): same resolution, origin None *)
Definition resolve_top_struct (st : symtab) (s : sdef) : outcome mty :=
  do fs <-
    (fix go (l : list sfield) : outcome (list (string * mty * N)) :=
       match l with
       | [] => Ok []
       | x :: r =>
           do t' <- resolve_ty (struct_fuel st) st (sf_ty x);
           do r' <- go r;
           Ok ((sf_name x, t', sf_cnt x) :: r')
       end) (s_fields s);
  Ok (MStruct (s_name s) fs).

Fixpoint to_mir (st : symtab) (ns : list node) : outcome (list mtop) :=
  match ns with
  | [] => Ok []
  | n :: r =>
      do x <- match n with
              | NInclude p => Ok (MTInclude p)
              | NConst c => Ok (MTConst c)
              | NStruct s => do t <- resolve_top_struct st s; Ok (MTStruct t)
              | NIface i => do mi <- number_top st i; Ok (MTIface mi)
              end;
      do r' <- to_mir st r;
      Ok (x :: r')
  end.

(* ------------------------------------------------------------------ *)
(* StructInner::objects (mir.rs:189-216): BFS whose parent map is keyed  *)
(* by struct value; distinct struct types have distinct names, so the    *)
(* key is the struct name.                                               *)

Definition mfields (t : mty) : list (string * mty * N) :=
  match t with MStruct _ fs => fs | _ => [] end.
Definition mname (t : mty) : string :=
  match t with MStruct n _ => n | _ => "" end.

(* StructInner::objects (mir.rs): breadth-first over nested structs; every queue entry carries
   the path of field names leading to it, so two fields of the same struct type keep distinct
   paths.  (The pinned upstream version keyed a parent map by struct value and lost the first
   of two such fields; repaired by a "fix:" commit, see known_findings.json.) *)
Fixpoint objects_fields (prefix : list string) (fs : list (string * mty * N))
         (queue : list (mty * list string))
         (acc : list (list string * option string))
  : list (mty * list string) * list (list string * option string) :=
  match fs with
  | [] => (queue, acc)
  | (fname, ft, _) :: r =>
      match ft with
      | MStruct _ _ => objects_fields prefix r (queue ++ [(ft, prefix ++ [fname])]) acc
      | MIface i => objects_fields prefix r queue (acc ++ [(prefix ++ [fname], i)])
      | _ => objects_fields prefix r queue acc
      end
  end.

Fixpoint objects_bfs (fuel : nat) (queue : list (mty * list string))
         (acc : list (list string * option string))
  : list (list string * option string) :=
  match fuel with
  | O => acc
  | S f =>
      match queue with
      | [] => acc
      | (q, prefix) :: qs =>
          let '(queue', acc') := objects_fields prefix (mfields q) qs acc in
          objects_bfs f queue' acc'
      end
  end.

(* number of struct nodes in a type tree: bound on queue pops *)
Fixpoint mty_nodes (t : mty) : nat :=
  match t with
  | MStruct _ fs =>
      S ((fix go (fs : list (string * mty * N)) : nat :=
            match fs with [] => O | (_, ft, _) :: r => (mty_nodes ft + go r)%nat end) fs)
  | _ => O
  end.

Definition objects_model (t : mty) : list (list string * option string) :=
  objects_bfs (S (mty_nodes t)) [(t, [])] [].

Definition contains_interfaces (t : mty) : bool :=
  match objects_model t with [] => false | _ => true end.

(* ------------------------------------------------------------------ *)
(* InterfaceVerifier                                                    *)

Fixpoint mi_chain (i : miface) : list miface :=
  match i with
  | MI _ None _ => [i]
  | MI _ (Some b) _ => i :: mi_chain b
  end.

Definition mnode_funcs (ns : list mnode) : list mfunc :=
  flat_map (fun n => match n with MFuncN f => [f] | _ => [] end) ns.
Definition mnode_const_names (ns : list mnode) : list string :=
  flat_map (fun n => match n with MConstN c => [c_name c] | MErrorN e _ => [e] | _ => [] end) ns.

Definition is_struct_or_prim (t : mty) : bool :=
  match t with MStruct _ _ | MPrim _ => true | _ => false end.
Definition is_mstruct (t : mty) : bool :=
  match t with MStruct _ _ => true | _ => false end.
Definition is_miface (t : mty) : bool :=
  match t with MIface _ => true | _ => false end.

(* per-parameter rejects; returns (is_obj_array, is_obj_value) *)
Definition check_param_gen (small_in : bool) (p : mparam) : outcome (bool * bool) :=
  match mp_shape p with
  | PArr cnt =>
      if is_miface (mp_ty p) then
        match cnt with None => Reject RObjArrUnbounded | Some _ => Ok (true, false) end
      else if is_struct_or_prim (mp_ty p) then
        let obj_struct :=
          is_mstruct (mp_ty p) &&
          (if mp_out p then true else small_in || negb (is_small (mp_ty p))) &&
          contains_interfaces (mp_ty p) in
        if obj_struct then Reject RObjStructArray
        else match cnt with Some _ => Reject RBoundedDataArray | None => Ok (false, false) end
      else Ok (false, false)
  | PVal => Ok (false, is_miface (mp_ty p))
  end.

Definition check_param := check_param_gen verifier_small_objstruct_in_array.

(* [two]: a second object array of one direction is rejected (regenerated fact) *)
Fixpoint check_params_gen (two small_in : bool) (ps : list mparam) (ai vi ao vo : bool) : outcome unit :=
  match ps with
  | [] => if (ai && vi) || (ao && vo) then Reject RObjArrMixed else Ok tt
  | p :: r =>
      do x <- check_param_gen small_in p;
      let '(a, v) := x in
      if two && a && (if mp_out p then ao else ai) then Reject RObjArrMixed
      else if mp_out p then check_params_gen two small_in r ai vi (ao || a) (vo || v)
      else check_params_gen two small_in r (ai || a) (vi || v) ao vo
  end.
Definition check_params := check_params_gen verifier_rejects_second_objarr verifier_small_objstruct_in_array.

Definition verify_iface (i : miface) : outcome unit :=
  let chain := mi_chain i in
  let cnames := flat_map (fun x => mnode_const_names (mi_nodes x)) chain in
  let fnames := flat_map (fun x => map mf_name (mnode_funcs (mi_nodes x))) chain in
  if negb (nodup_str cnames) || negb (nodup_str fnames) then Reject RIfaceCollision else
  (fix go (fs : list mfunc) : outcome unit :=
     match fs with
     | [] => Ok tt
     | f :: r => do _ <- check_params (mf_params f) false false false false; go r
     end) (flat_map (fun x => mnode_funcs (mi_nodes x)) chain).

Fixpoint interface_verifier (ts : list mtop) : outcome unit :=
  match ts with
  | [] => Ok tt
  | MTIface i :: r => do _ <- verify_iface i; interface_verifier r
  | _ :: r => interface_verifier r
  end.

(* ------------------------------------------------------------------ *)
(* The whole front end after loading.  [files]: every loaded file, the   *)
(* main file first.                                                      *)

Inductive entry := Cli | Lib.

Definition front_gen (lib_verifies : bool) (e : entry) (md : mode) (files : list ast) : outcome (list mtop) :=
  match files with
  | [] => Reject RIo
  | main :: _ =>
      do st <- gather_files st_empty files;
      do _ <- functions_pass main;
      do order <- cycles_pass st main;
      do _ <- verify_structs md st [] order;
      do mir <- to_mir st (a_nodes main);
      do _ <- match e with
              | Cli => interface_verifier mir
              | Lib => if lib_verifies then interface_verifier mir else Ok tt
              end;
      Ok mir
  end.
(* lib.rs runs the InterfaceVerifier since the repair of the library entry point (regenerated fact) *)
Definition front := front_gen lib_runs_interface_verifier.
