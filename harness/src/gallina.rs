// Printers: AST -> Gallina terms of Syntax.v; MIR -> sx observations of Base.v.
use idlc_ast as ast;
use idlc_mir as mir;

pub fn qs(s: &str) -> String {
    // Coq string literal: double the quotes; keep bytes as they are (ASCII expected)
    let mut o = String::with_capacity(s.len() + 2);
    o.push('"');
    for c in s.chars() {
        if c == '"' {
            o.push_str("\"\"");
        } else if c == '\n' {
            o.push('\u{1}'); // line protocol: the driver turns \x01 back into a newline
        } else if c == '\r' {
            o.push('\u{2}');
        } else {
            o.push(c);
        }
    }
    o.push('"');
    o
}

pub fn list(items: &[String]) -> String {
    format!("[{}]", items.join("; "))
}

fn aprim(p: &ast::Primitive) -> &'static str {
    match p {
        ast::Primitive::Uint8 => "U8",
        ast::Primitive::Uint16 => "U16",
        ast::Primitive::Uint32 => "U32",
        ast::Primitive::Uint64 => "U64",
        ast::Primitive::Int8 => "I8",
        ast::Primitive::Int16 => "I16",
        ast::Primitive::Int32 => "I32",
        ast::Primitive::Int64 => "I64",
        ast::Primitive::Float32 => "F32",
        ast::Primitive::Float64 => "F64",
    }
}

fn aty(t: &ast::Type) -> String {
    match t {
        ast::Type::UntypedBuffer => "TBuffer".into(),
        ast::Type::Primitive(p) => format!("(TPrim {})", aprim(p)),
        ast::Type::Interface => "TIface".into(),
        ast::Type::Custom(c) => format!("(TCustom {})", qs(&c.ident)),
    }
}

fn cdef(c: &ast::Const) -> String {
    format!("(mkC {} {} {})", qs(&c.ident.ident), aprim(&c.r#type), qs(&c.value))
}

fn opt_cnt(c: &Option<ast::Count>) -> String {
    match c {
        None => "(PArr None)".into(),
        Some(n) => format!("(PArr (Some {}))", n.get()),
    }
}

fn param(p: &ast::Param) -> String {
    match p {
        ast::Param::In { r#type, ident } => match r#type {
            ast::ParamTypeIn::Array(t, c) => {
                format!("(mkP false {} {} {})", aty(t), opt_cnt(c), qs(&ident.ident))
            }
            ast::ParamTypeIn::Value(t) => format!("(mkP false {} PVal {})", aty(t), qs(&ident.ident)),
        },
        ast::Param::Out { r#type, ident } => match r#type {
            ast::ParamTypeOut::Array(t, c) => {
                format!("(mkP true {} {} {})", aty(t), opt_cnt(c), qs(&ident.ident))
            }
            ast::ParamTypeOut::Reference(t) => {
                format!("(mkP true {} PVal {})", aty(t), qs(&ident.ident))
            }
        },
    }
}

fn func(f: &ast::Function, with_doc: bool) -> String {
    let ps: Vec<String> = f.params.iter().map(param).collect();
    let opt = f.attributes.contains(&ast::FunctionAttribute::Optional);
    let doc = match (&f.doc, with_doc) {
        (Some(ast::Documentation(d)), true) => format!("(Some {})", qs(d)),
        (Some(_), false) => "(Some \"\")".into(),
        (None, _) => "None".into(),
    };
    format!("(mkFn {} {} {} {})", qs(&f.ident.ident), list(&ps), opt, doc)
}

pub fn ast_term(a: &ast::Ast, with_doc: bool) -> String {
    let mut ns = Vec::new();
    for n in &a.nodes {
        ns.push(match n.as_ref() {
            ast::Node::Include(p) => format!("NInclude {}", qs(&p.display().to_string())),
            ast::Node::Const(c) => format!("NConst {}", cdef(c)),
            ast::Node::Struct(s) => {
                let fs: Vec<String> = s
                    .fields
                    .iter()
                    .map(|f| format!("mkF {} {} {}", qs(&f.ident.ident), aty(&f.val.0), f.val.1.get()))
                    .collect();
                format!("NStruct (mkS {} {})", qs(&s.ident.ident), list(&fs))
            }
            ast::Node::Interface(i) => {
                let ms: Vec<String> = i
                    .nodes
                    .iter()
                    .map(|m| match m {
                        ast::InterfaceNode::Const(c) => format!("IConst {}", cdef(c)),
                        ast::InterfaceNode::Function(f) => format!("IFunc {}", func(f, with_doc)),
                        ast::InterfaceNode::Error(e) => format!("IError {}", qs(&e.ident)),
                    })
                    .collect();
                let base = match &i.base {
                    None => "None".to_string(),
                    Some(b) => format!("(Some {})", qs(&b.ident)),
                };
                format!("NIface (mkI {} {} {})", qs(&i.ident.ident), base, list(&ms))
            }
        });
    }
    format!("(mkAst {} {})", qs(&a.tag.display().to_string()), list(&ns))
}

// ---------------------------------------------------------------- sx

pub fn sa(n: i128) -> String {
    if n < 0 {
        format!("SA ({})", n)
    } else {
        format!("SA {}", n)
    }
}
pub fn ss(s: &str) -> String {
    format!("SS {}", qs(s))
}
pub fn sl(items: &[String]) -> String {
    format!("SL {}", list(items))
}

pub fn mprim_code(p: mir::Primitive) -> i128 {
    match p {
        mir::Primitive::Uint8 => 0,
        mir::Primitive::Uint16 => 1,
        mir::Primitive::Uint32 => 2,
        mir::Primitive::Uint64 => 3,
        mir::Primitive::Int8 => 4,
        mir::Primitive::Int16 => 5,
        mir::Primitive::Int32 => 6,
        mir::Primitive::Int64 => 7,
        mir::Primitive::Float32 => 8,
        mir::Primitive::Float64 => 9,
    }
}

pub fn sx_struct(s: &mir::Struct) -> String {
    let (small, inner) = match s {
        mir::Struct::Small(i) => (1, i),
        mir::Struct::Big(i) => (0, i),
    };
    sx_struct_inner(inner, small)
}

pub fn sx_struct_inner(inner: &mir::StructInner, small: i128) -> String {
    let fs: Vec<String> = inner
        .fields
        .iter()
        .map(|f| sl(&[ss(&f.ident.ident), sx_ty(&f.val.0), sa(f.val.1.get() as i128)]))
        .collect();
    sl(&[sa(3), ss(&inner.ident.ident), sa(small), sl(&fs)])
}

pub fn sx_ty(t: &mir::Type) -> String {
    match t {
        mir::Type::UntypedBuffer => sl(&[sa(0)]),
        mir::Type::Primitive(p) => sl(&[sa(1), sa(mprim_code(*p))]),
        mir::Type::Interface(None) => sl(&[sa(2)]),
        mir::Type::Interface(Some(n)) => sl(&[sa(2), ss(n)]),
        mir::Type::Struct(s) => sx_struct(s),
    }
}

fn sx_const(c: &mir::Const, tag: i128) -> String {
    sl(&[sa(tag), ss(&c.ident.ident), sa(mprim_code(c.r#type)), ss(&c.value)])
}

fn sx_shape(arr: Option<&Option<mir::Count>>) -> String {
    match arr {
        None => sl(&[sa(0)]),
        Some(None) => sl(&[sa(1)]),
        Some(Some(n)) => sl(&[sa(1), sa(n.get() as i128)]),
    }
}

pub fn sx_param(p: &mir::Param) -> String {
    match p {
        mir::Param::In { r#type, ident } => match r#type {
            mir::ParamTypeIn::Array(t, c) => sl(&[sa(0), sx_ty(t), sx_shape(Some(c)), ss(&ident.ident)]),
            mir::ParamTypeIn::Value(t) => sl(&[sa(0), sx_ty(t), sx_shape(None), ss(&ident.ident)]),
        },
        mir::Param::Out { r#type, ident } => match r#type {
            mir::ParamTypeOut::Array(t, c) => sl(&[sa(1), sx_ty(t), sx_shape(Some(c)), ss(&ident.ident)]),
            mir::ParamTypeOut::Reference(t) => sl(&[sa(1), sx_ty(t), sx_shape(None), ss(&ident.ident)]),
        },
    }
}

pub fn sx_iface(i: &mir::Interface) -> String {
    let nodes: Vec<String> = i
        .nodes
        .iter()
        .map(|n| match n {
            mir::InterfaceNode::Const(c) => sx_const(c, 0),
            mir::InterfaceNode::Function(f) => {
                let ps: Vec<String> = f.params.iter().map(sx_param).collect();
                sl(&[
                    sa(1),
                    ss(&f.ident.ident),
                    sa(f.id as i128),
                    sa(f.is_optional() as i128),
                    sl(&ps),
                ])
            }
            mir::InterfaceNode::Error(e) => sl(&[sa(2), ss(&e.ident.ident), sa(e.value as i128)]),
        })
        .collect();
    let base = match &i.base {
        None => sl(&[]),
        Some(b) => sl(&[sx_iface(b)]),
    };
    sl(&[ss(&i.ident.ident), base, sl(&nodes)])
}

pub fn sx_mir(m: &mir::Mir) -> String {
    let ns: Vec<String> = m
        .nodes
        .iter()
        .map(|n| match n.as_ref() {
            mir::Node::Include(p) => sl(&[sa(0), ss(&p.display().to_string())]),
            mir::Node::Const(c) => sx_const(c, 1),
            mir::Node::Struct(s) => sl(&[sa(2), sx_struct(s)]),
            mir::Node::Interface(i) => sl(&[sa(3), sx_iface(i)]),
        })
        .collect();
    sl(&ns)
}
