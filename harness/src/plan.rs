// Plan-level observations through the public codegen API: sorted order,
// PackedPrimitives, Counter, visitor event trace; and the Param::cmp table.
use crate::gallina::{list, mprim_code, sa, sl, ss, sx_struct_inner};
use idlc_codegen::counts::Counter;
use idlc_codegen::functions::{visit_params_with_bundling, ParameterVisitor};
use idlc_codegen::serialization::{PackedPrimitives, Type as PType};
use idlc_mir as mir;
use idlc_mir::{Count, Ident, Primitive, StructInner};
use std::panic::{catch_unwind, AssertUnwindSafe};

struct Trace {
    ev: Vec<String>,
}

fn objs(s: &StructInner) -> String {
    let v: Vec<String> = s
        .objects()
        .iter()
        .map(|(path, ty)| {
            let p: Vec<String> = path.iter().map(|i| ss(&i.ident)).collect();
            let t = match ty {
                None => sl(&[]),
                Some(n) => sl(&[ss(n)]),
            };
            sl(&[sl(&p), t])
        })
        .collect();
    sl(&v)
}

fn oty(t: Option<&str>) -> String {
    match t {
        None => sl(&[]),
        Some(n) => sl(&[ss(n)]),
    }
}

fn bundle(items: Vec<(&Ident, &PType)>, size: usize) -> Vec<String> {
    let ms: Vec<String> = items
        .iter()
        .map(|(i, t)| {
            let tt = match t {
                PType::Primitive(p) => sl(&[sa(1), sa(mprim_code(*p))]),
                PType::SmallStruct(s) => sx_struct_inner(s, 1),
            };
            sl(&[ss(&i.ident), tt, sa(t.size() as i128)])
        })
        .collect();
    vec![sl(&ms), sa(size as i128)]
}

impl ParameterVisitor for Trace {
    fn visit_input_primitive_buffer(&mut self, ident: &Ident, ty: Primitive) {
        self.ev.push(sl(&[sa(0), ss(&ident.ident), sa(mprim_code(ty))]));
    }
    fn visit_input_untyped_buffer(&mut self, ident: &Ident) {
        self.ev.push(sl(&[sa(1), ss(&ident.ident)]));
    }
    fn visit_input_struct_buffer(&mut self, ident: &Ident, ty: &StructInner) {
        self.ev.push(sl(&[sa(2), ss(&ident.ident), ss(&ty.ident.ident), sa(ty.size() as i128)]));
    }
    fn visit_input_primitive(&mut self, ident: &Ident, ty: Primitive) {
        self.ev.push(sl(&[sa(3), ss(&ident.ident), sa(mprim_code(ty))]));
    }
    fn visit_input_bundled(&mut self, pp: &PackedPrimitives) {
        let mut v = vec![sa(4)];
        v.extend(bundle(pp.inputs_by_idents().collect(), pp.packed_input_size()));
        self.ev.push(sl(&v));
    }
    fn visit_input_big_struct(&mut self, ident: &Ident, ty: &StructInner) {
        self.ev.push(sl(&[sa(5), ss(&ident.ident), ss(&ty.ident.ident), sa(ty.size() as i128), objs(ty)]));
    }
    fn visit_input_small_struct(&mut self, ident: &Ident, ty: &StructInner) {
        self.ev.push(sl(&[sa(6), ss(&ident.ident), ss(&ty.ident.ident), sa(ty.size() as i128), objs(ty)]));
    }
    fn visit_input_object(&mut self, ident: &Ident, ty: Option<&str>) {
        self.ev.push(sl(&[sa(7), ss(&ident.ident), oty(ty)]));
    }
    fn visit_input_object_array(&mut self, ident: &Ident, ty: Option<&str>, cnt: Count) {
        self.ev.push(sl(&[sa(8), ss(&ident.ident), oty(ty), sa(cnt.get() as i128)]));
    }
    fn visit_output_primitive_buffer(&mut self, ident: &Ident, ty: Primitive) {
        self.ev.push(sl(&[sa(10), ss(&ident.ident), sa(mprim_code(ty))]));
    }
    fn visit_output_untyped_buffer(&mut self, ident: &Ident) {
        self.ev.push(sl(&[sa(11), ss(&ident.ident)]));
    }
    fn visit_output_struct_buffer(&mut self, ident: &Ident, ty: &StructInner) {
        self.ev.push(sl(&[sa(12), ss(&ident.ident), ss(&ty.ident.ident), sa(ty.size() as i128)]));
    }
    fn visit_output_primitive(&mut self, ident: &Ident, ty: Primitive) {
        self.ev.push(sl(&[sa(13), ss(&ident.ident), sa(mprim_code(ty))]));
    }
    fn visit_output_bundled(&mut self, pp: &PackedPrimitives) {
        let mut v = vec![sa(14)];
        v.extend(bundle(pp.outputs_by_idents().collect(), pp.packed_output_size()));
        self.ev.push(sl(&v));
    }
    fn visit_output_big_struct(&mut self, ident: &Ident, ty: &StructInner) {
        self.ev.push(sl(&[sa(15), ss(&ident.ident), ss(&ty.ident.ident), sa(ty.size() as i128), objs(ty)]));
    }
    fn visit_output_small_struct(&mut self, ident: &Ident, ty: &StructInner) {
        self.ev.push(sl(&[sa(16), ss(&ident.ident), ss(&ty.ident.ident), sa(ty.size() as i128), objs(ty)]));
    }
    fn visit_output_object(&mut self, ident: &Ident, ty: Option<&str>) {
        self.ev.push(sl(&[sa(17), ss(&ident.ident), oty(ty)]));
    }
    fn visit_output_object_array(&mut self, ident: &Ident, ty: Option<&str>, cnt: Count) {
        self.ev.push(sl(&[sa(18), ss(&ident.ident), oty(ty), sa(cnt.get() as i128)]));
    }
}

pub fn sx_plan(f: &mir::Function) -> String {
    let mut sorted = f.params.clone();
    sorted.sort();
    let names: Vec<String> = sorted.iter().map(|p| ss(&p.ident().ident)).collect();
    let counter = catch_unwind(AssertUnwindSafe(|| Counter::new(f)));
    let c = match counter {
        Ok(c) => sl(&[
            sa(c.input_buffers as i128),
            sa(c.output_buffers as i128),
            sa(c.input_objects as i128),
            sa(c.output_objects as i128),
        ]),
        Err(_) => sl(&[]),
    };
    let ev = catch_unwind(AssertUnwindSafe(|| {
        let mut t = Trace { ev: vec![] };
        visit_params_with_bundling(f, &mut t);
        t.ev
    }));
    let e = match ev {
        Ok(v) => sl(&v),
        Err(_) => sl(&[sa(-1)]),
    };
    sl(&[ss(&f.ident.ident), sl(&names), c, e])
}

pub fn sx_plans(m: &mir::Mir) -> String {
    let mut out = Vec::new();
    for n in &m.nodes {
        if let mir::Node::Interface(top) = n.as_ref() {
            for from in top.iter() {
                for node in &from.nodes {
                    if let mir::InterfaceNode::Function(f) = node {
                        out.push(sl(&[ss(&top.ident.ident), ss(&from.ident.ident), sx_plan(f)]));
                    }
                }
            }
        }
    }
    sl(&out)
}

/// per top-level struct: name, StructInner::size(), per field (name, StructField::size())
pub fn sx_sizes(m: &mir::Mir) -> String {
    let mut out = Vec::new();
    for n in &m.nodes {
        if let mir::Node::Struct(s) = n.as_ref() {
            let inner: &StructInner = s.as_ref();
            let r = catch_unwind(AssertUnwindSafe(|| {
                let fs: Vec<String> =
                    inner.fields.iter().map(|f| sl(&[ss(&f.ident.ident), sa(f.size() as i128)])).collect();
                sl(&[ss(&inner.ident.ident), sa(inner.size() as i128), sl(&fs)])
            }));
            out.push(r.unwrap_or_else(|_| sl(&[ss(&inner.ident.ident), sa(-1)])));
        }
    }
    sl(&out)
}

// ---------------------------------------------------------------- cmp table

fn id(s: &str) -> Ident {
    Ident::new_without_span(s.to_string())
}

fn mk_struct(name: &str, n_u64: usize, with_obj: bool) -> mir::Struct {
    let one = Count::new(1).unwrap();
    let mut fields = Vec::new();
    for i in 0..n_u64 {
        fields.push(mir::StructField { ident: id(&format!("f{i}")), val: (mir::Type::Primitive(Primitive::Uint64), one) });
    }
    if with_obj {
        fields.push(mir::StructField { ident: id("o"), val: (mir::Type::Interface(None), one) });
    }
    mir::Struct::from(StructInner { ident: id(name), fields, origin: None })
}

/// kind 0..8 (see CmpTable.v header), variation 0..2
fn mk_param(out: bool, kind: usize, var: usize, name: &str) -> mir::Param {
    let prims = [Primitive::Uint8, Primitive::Float64, Primitive::Int32];
    let ty = match kind {
        0 => mir::Type::UntypedBuffer,
        1 | 2 => mir::Type::Primitive(prims[var]),
        3 | 4 => mir::Type::Struct(mk_struct(["Sa", "Sb", "Sc"][var], [1, 2, 0][var], var == 2)),
        5 | 6 => mir::Type::Struct(mk_struct(["Ba", "Bb", "Bc"][var], [3, 9, 2][var], var == 2)),
        _ => mir::Type::Interface([None, Some("IFoo".to_string()), Some("IBar".to_string())][var].clone()),
    };
    let arr = matches!(kind, 2 | 4 | 6 | 8);
    let cnt = if kind == 8 { Count::new([2u16, 1, 15][var]) } else { None };
    if out {
        mir::Param::Out {
            r#type: if arr { mir::ParamTypeOut::Array(ty, cnt) } else { mir::ParamTypeOut::Reference(ty) },
            ident: id(name),
        }
    } else {
        mir::Param::In {
            r#type: if arr { mir::ParamTypeIn::Array(ty, cnt) } else { mir::ParamTypeIn::Value(ty) },
            ident: id(name),
        }
    }
}

fn ordn(o: std::cmp::Ordering) -> u32 {
    match o {
        std::cmp::Ordering::Less => 0,
        std::cmp::Ordering::Equal => 1,
        std::cmp::Ordering::Greater => 2,
    }
}

/// Prints CmpTable.v: the real Param::cmp on all 18x18 class pairs; every pair is
/// evaluated for all 3x3 payload variations, which must agree.
pub fn cmd_cmp_table() {
    let mut rows = Vec::new();
    let mut sensitive = false;
    for a in 0..18usize {
        for b in 0..18usize {
            let mut seen: Option<u32> = None;
            for va in 0..3 {
                for vb in 0..3 {
                    let pa = mk_param(a >= 9, a % 9, va, ["x", "yy", "a"][va]);
                    let pb = mk_param(b >= 9, b % 9, vb, ["z", "b", "x"][vb]);
                    let o = ordn(pa.cmp(&pb));
                    match seen {
                        None => seen = Some(o),
                        Some(p) if p != o => sensitive = true,
                        _ => {}
                    }
                }
            }
            rows.push(format!("({}, {}, {})", a, b, seen.unwrap()));
        }
    }
    println!("(* GENERATED by `vharness cmp-table`: the repository's `impl Ord for Param`");
    println!("   evaluated on all 18x18 pairs of parameter classes.");
    println!("   class = 9*dir + kind; dir 0 = in, 1 = out; kind: 0 untyped buffer, 1 primitive value,");
    println!("   2 primitive array, 3 small struct value, 4 small struct array, 5 big struct value,");
    println!("   6 big struct array, 7 object, 8 object array.  ord: 0 Less, 1 Equal, 2 Greater. *)");
    println!("Require Import Base.");
    println!("Definition cmp_payload_sensitive : bool := {}.", sensitive);
    println!("Definition cmp_table : list (N * N * N) := {}.", list(&rows));
}
