// vharness: drives the repository's public pass API on case files and prints
// observations in the formats of DESIGN.md (Gallina terms / sx values).
mod gallina;
mod plan;

use std::cell::RefCell;
use std::io::{BufRead, Write};
use std::panic::{catch_unwind, AssertUnwindSafe};
use std::path::{Path, PathBuf};

use idlc_ast_passes::{cycles, functions, idl_store::IDLStore, struct_verifier, CompilerPass};
use idlc_mir::mir;
use idlc_mir_passes::{interface_verifier, MirCompilerPass};

thread_local! {
    static LAST_PANIC: RefCell<String> = RefCell::new(String::new());
}

fn install_hook() {
    std::panic::set_hook(Box::new(|info| {
        let msg = if let Some(s) = info.payload().downcast_ref::<&str>() {
            s.to_string()
        } else if let Some(s) = info.payload().downcast_ref::<String>() {
            s.clone()
        } else {
            "<non-string panic>".to_string()
        };
        LAST_PANIC.with(|c| *c.borrow_mut() = msg);
    }));
}

pub fn last_panic() -> String {
    LAST_PANIC.with(|c| c.borrow().clone())
}

/// message -> reject class code of Base.v (rclass_code)
pub fn classify(msg: &str, stage: u32) -> u32 {
    let t = [
        ("Duplicate symbol", 5),
        ("has duplicate parameter", 6),
        ("cannot be found!", 3),
        ("File not found", 3),
        ("Failed to canonicalize", 3),
        ("not found", 8),
        ("Couldn't find any references", 8),
        ("was not aligned to required alignment", 9),
        ("is not aligned to it's natural alignment", 10),
        ("contains duplicate field names", 11),
        ("isn't in range", 2),
        ("Parsing failed", 1),
        ("IDL Parsing failure", 1),
        ("Duplicate attribute", 13),
        ("Numbers of functions should be lesser", 14),
        ("Collision deteced", 15),
        ("should not have unbounded array", 16),
        ("both object array and non-array", 17),
        ("has more than one input object array", 17),
        ("has more than one output object array", 17),
        ("Struct with Object inside cannot be used as an array", 18),
        ("should not have bounded array of primitive/struct", 19),
        ("needs more than", 20),
        ("is too large: its size does not fit", 21),
        ("is not in the range 1..=65535", 1),
        ("with overflow", 21),
        ("TryFromIntError", 20),
        ("IoError", 23),
    ];
    if msg.contains("Cylical imports found") {
        return if stage <= 1 { 4 } else { 7 };
    }
    for (pat, c) in t {
        if msg.contains(pat) {
            return c;
        }
    }
    if msg.contains("called `Option::unwrap()` on a `None` value") && (stage == 3 || stage == 5) {
        return 8;
    }
    24
}

pub struct FrontResult {
    pub stage: u32, // last stage entered: 0 load main, 1 includes, 2 functions, 3 cycles, 4 structs, 5 mir, 6 iface verifier, 7 done
    pub ok: bool,
    pub msg: String,
    pub files: Vec<(String, std::rc::Rc<idlc_ast::Ast>)>,
    pub mir: Option<mir::Mir>,
}

/// The pass sequence of idlc/src/main.rs (entry = "cli") or idlc/src/lib.rs (entry = "lib").
pub fn run_front(main: &Path, incs: &[PathBuf], entry: &str, allow_ub: bool) -> FrontResult {
    let mut r = FrontResult { stage: 0, ok: false, msg: String::new(), files: vec![], mir: None };
    let stage = RefCell::new(0u32);
    let files = RefCell::new(Vec::new());
    let res = catch_unwind(AssertUnwindSafe(|| -> Result<mir::Mir, String> {
        let (input, include_paths, ub) = if entry == "cli" {
            let input = main.canonicalize().expect("Invalid input file.");
            let mut ip = incs.to_vec();
            ip.push(input.parent().unwrap().to_path_buf());
            (input, ip, allow_ub)
        } else {
            (main.to_path_buf(), incs.to_vec(), false)
        };
        let mut store = IDLStore::with_includes(&include_paths, ub);
        let ast = store.get_or_insert(&input);
        *stage.borrow_mut() = 1;
        let topo = store.run_pass(&ast).map_err(|e| e.to_string())?;
        // every loaded file other than main is the target of an include edge
        let canon_main = input.canonicalize().unwrap_or(input.clone());
        let mut fl = vec![(canon_main.display().to_string(), ast.clone())];
        let mut others: Vec<String> = topo
            .into_iter()
            .filter(|p| *p != canon_main.display().to_string() && *p != input.display().to_string())
            .collect();
        others.sort();
        for p in others {
            if let Some(a) = store.get_ast(Path::new(&p)) {
                fl.push((p, a));
            }
        }
        *files.borrow_mut() = fl;
        *stage.borrow_mut() = 2;
        functions::Functions::new().run_pass(&ast).map_err(|e| e.to_string())?;
        *stage.borrow_mut() = 3;
        let order = cycles::Cycles::new(&store).run_pass(&ast).map_err(|e| e.to_string())?;
        *stage.borrow_mut() = 4;
        struct_verifier::StructVerifier::run_pass(&store, &order).map_err(|e| e.to_string())?;
        *stage.borrow_mut() = 5;
        let m = mir::parse_to_mir(&ast, &mut store);
        // lib.rs runs the verifier since the repair of the library entry point; the driver passes what
        // the translator read from idlc/src/lib.rs
        if entry == "cli" || std::env::var("VERIF_LIB_RUNS_VERIFIER").as_deref() == Ok("1") {
            *stage.borrow_mut() = 6;
            interface_verifier::InterfaceVerifier::new(&m).run_pass();
        }
        *stage.borrow_mut() = 7;
        Ok(m)
    }));
    r.stage = *stage.borrow();
    r.files = files.into_inner();
    match res {
        Ok(Ok(m)) => {
            r.ok = true;
            r.mir = Some(m);
        }
        Ok(Err(e)) => r.msg = e,
        Err(_) => r.msg = last_panic(),
    }
    r
}

fn one_line(s: &str) -> String {
    s.replace('\n', " ").replace('\r', " ").chars().take(300).collect()
}

/// front <casefile>: each line: id \t entry(cli|lib) \t flags(ub|-) \t main \t inc1:inc2:..
fn cmd_front(casefile: &str, with_plans: bool, with_doc: bool) {
    let f = std::fs::File::open(casefile).expect("casefile");
    let out = std::io::stdout();
    let mut out = std::io::BufWriter::new(out.lock());
    for line in std::io::BufReader::new(f).lines() {
        let line = line.unwrap();
        if line.trim().is_empty() {
            continue;
        }
        let parts: Vec<&str> = line.split('\t').collect();
        let (id, entry, flags, main) = (parts[0], parts[1], parts[2], parts[3]);
        let incs: Vec<PathBuf> = parts
            .get(4)
            .map(|s| s.split(':').filter(|x| !x.is_empty()).map(PathBuf::from).collect())
            .unwrap_or_default();
        if entry == "libgen" {
            // the real library entry point used from build scripts
            let res = catch_unwind(AssertUnwindSafe(|| {
                idlc::Language::Rust.generate(&incs, Path::new(main)).map(|d| d.len()).map_err(|e| e.to_string())
            }));
            writeln!(out, "@case {}", id).unwrap();
            match res {
                Ok(Ok(n)) => writeln!(out, "@result ok {}", n).unwrap(),
                Ok(Err(e)) => writeln!(out, "@result reject {} 0 {}", classify(&e, 9), one_line(&e)).unwrap(),
                Err(_) => {
                    let m = last_panic();
                    writeln!(out, "@result reject {} 0 {}", classify(&m, 9), one_line(&m)).unwrap()
                }
            }
            writeln!(out, "@end").unwrap();
            continue;
        }
        let r = run_front(Path::new(main), &incs, entry, flags.contains("ub"));
        writeln!(out, "@case {}", id).unwrap();
        if r.ok {
            writeln!(out, "@result ok").unwrap();
        } else {
            writeln!(out, "@result reject {} {} {}", classify(&r.msg, r.stage), r.stage, one_line(&r.msg)).unwrap();
        }
        if !r.files.is_empty() {
            let fl: Vec<String> = r.files.iter().map(|(_, a)| gallina::ast_term(a, with_doc)).collect();
            writeln!(out, "@files {}", gallina::list(&fl)).unwrap();
        }
        if let Some(m) = &r.mir {
            writeln!(out, "@mir {}", gallina::sx_mir(m)).unwrap();
            if with_plans {
                writeln!(out, "@plans {}", plan::sx_plans(m)).unwrap();
            }
            writeln!(out, "@sizes {}", plan::sx_sizes(m)).unwrap();
        }
        writeln!(out, "@end").unwrap();
    }
}

/// ast <listfile>: each line `id<TAB>ub|-<TAB>path`; parses one file through the real parser
/// (idlc_ast::from_file) and prints its AST as a Gallina term, or the rejection.
fn cmd_ast(listfile: &str) {
    let f = std::fs::File::open(listfile).expect("file");
    let out = std::io::stdout();
    let mut out = std::io::BufWriter::new(out.lock());
    for line in std::io::BufReader::new(f).lines() {
        let line = line.unwrap();
        let parts: Vec<&str> = line.split('\t').collect();
        if parts.len() < 3 {
            continue;
        }
        let ub = parts[1].contains("ub");
        let path = PathBuf::from(parts[2]);
        let r = catch_unwind(AssertUnwindSafe(|| idlc_ast::from_file(&path, ub).map_err(|e| e.to_string())));
        writeln!(out, "@case {}", parts[0]).unwrap();
        match r {
            Ok(Ok(a)) => {
                writeln!(out, "@result ok").unwrap();
                writeln!(out, "@ast {}", gallina::ast_term(&a, true)).unwrap();
            }
            Ok(Err(e)) => writeln!(out, "@result reject {} 0 {}", classify(&e, 0), one_line(&e)).unwrap(),
            Err(_) => {
                let m = last_panic();
                writeln!(out, "@result reject {} 0 {}", classify(&m, 0), one_line(&m)).unwrap()
            }
        }
        writeln!(out, "@end").unwrap();
    }
}

/// consts <file>: each line `type<TAB>literal`; parses `const <type> ZC = <literal>;` through
/// the real parser (range check included) and prints `ok` / `reject <class>` per line.
fn cmd_consts(file: &str, allow_ub: bool, scope: &str) {
    let f = std::fs::File::open(file).expect("file");
    let out = std::io::stdout();
    let mut out = std::io::BufWriter::new(out.lock());
    for line in std::io::BufReader::new(f).lines() {
        let line = line.unwrap();
        let parts: Vec<&str> = line.split('\t').collect();
        if parts.len() < 2 {
            continue;
        }
        // where the constant is declared: at file level, in an interface, in a derived interface
        let text = match scope {
            "iface" => format!("interface IK {{\n  const {} ZC = {};\n}};\n", parts[0], parts[1]),
            "derived" => format!(
                "interface IB {{\n  method f();\n}};\ninterface IK : IB {{\n  method g();\n  const {} ZC = {};\n  error E;\n}};\n",
                parts[0], parts[1]
            ),
            _ => format!("const {} ZC = {};\n", parts[0], parts[1]),
        };
        let r = catch_unwind(AssertUnwindSafe(|| {
            idlc_ast::from_string(PathBuf::from("c.idl"), &text, allow_ub).map(|_| ()).map_err(|e| e.to_string())
        }));
        match r {
            Ok(Ok(())) => writeln!(out, "ok").unwrap(),
            Ok(Err(e)) => writeln!(out, "reject {} {}", classify(&e, 0), one_line(&e)).unwrap(),
            Err(_) => {
                let m = last_panic();
                writeln!(out, "reject {} {}", classify(&m, 0), one_line(&m)).unwrap()
            }
        }
    }
}

fn main() {
    install_hook();
    let args: Vec<String> = std::env::args().collect();
    match args.get(1).map(String::as_str) {
        Some("front") => cmd_front(&args[2], args.iter().any(|a| a == "--plans"), args.iter().any(|a| a == "--doc")),
        Some("cmp-table") => plan::cmd_cmp_table(),
        Some("consts") => cmd_consts(
            &args[2],
            args.iter().any(|a| a == "--ub"),
            if args.iter().any(|a| a == "--iface") { "iface" } else if args.iter().any(|a| a == "--derived") { "derived" } else { "top" },
        ),
        Some("ast") => cmd_ast(&args[2]),
        _ => {
            eprintln!("usage: vharness front <casefile> [--plans] [--doc] | cmp-table");
            std::process::exit(2);
        }
    }
}
